//! C02 — bigBed write/read round trip is exact, including overlapping entries and autoSql
use super::common::*;
use crate::drive;
use crate::gen;
use crate::model::*;
use crate::runner::{Obs, Prop, Tier};
use crate::sink::SharedSink;
use proptest::prelude::*;
use serde::{Deserialize, Serialize};

#[derive(Serialize, Deserialize, Clone, Debug)]
pub struct Case {
    pub input: BbInput,
    pub opts: Opts,
    #[serde(default)]
    pub k2_nudged: u32,
    /// seeded delay schedule (consumer held back), see C01
    #[serde(default)]
    pub delay: Option<(u64, u8)>,
}

pub struct C02;

pub fn make_case((mut input, opts): (BbInput, Opts)) -> Case {
    let mut n = 0;
    for c in input.chroms.iter_mut() {
        if gen::exclude_k2(c) {
            n += 1;
        }
    }
    Case {
        input,
        opts,
        k2_nudged: n,
        delay: None,
    }
}

#[cfg(bigtools_verif)]
fn schedule(d: Option<(u64, u8)>) {
    use bigtools::utils::verif_hooks as h;
    match d {
        Some((seed, intensity)) => {
            h::set_schedule(seed, intensity as u32);
            h::set_bias((1 << 4) | (1 << 7) | (1 << 9) | (1 << 11));
        }
        None => {
            h::set_schedule(0, 0);
            h::set_bias(0);
        }
    }
}
#[cfg(not(bigtools_verif))]
fn schedule(_d: Option<(u64, u8)>) {}

/// several chromosomes with > 8 KiB of section data each (see C01::big_chroms)
fn big_chroms() -> BoxedStrategy<Case> {
    use proptest::sample::select;
    (
        proptest::collection::vec((500usize..1800, any::<u32>()), 2..=4),
        any::<bool>(),
        any::<bool>(),
        select(vec![64u32, 1024, 65535]),
        select(vec![1u8, 2, 4, 8]),
        gen::source_kind(),
        any::<bool>(),
        proptest::option::weighted(0.7, (any::<u64>(), 30u8..=100)),
    )
        .prop_map(|(chroms, compress, inmemory, ips, threads, source, multipass, delay)| {
            let mut cs = vec![];
            for (ci, (n, seed)) in chroms.iter().enumerate() {
                let mut x = *seed as u64 | 1;
                let mut start = 0u32;
                let mut entries = Vec::with_capacity(*n);
                for i in 0..*n {
                    x ^= x << 13;
                    x ^= x >> 7;
                    x ^= x << 17;
                    start += (x % 4) as u32;
                    let len = 1 + ((x >> 8) % 40) as u32;
                    entries.push(BbEntry { s: start, e: start + len, rest: format!("n{}\t{}", i, x % 1000) });
                }
                let size = entries.iter().map(|e| e.e).max().unwrap() + 2;
                cs.push(BbChrom { name: format!("big{}", ci), size, entries });
            }
            let mut opts = Opts::default();
            opts.compress = compress;
            opts.inmemory = inmemory;
            opts.items_per_slot = ips;
            opts.threads = threads;
            opts.source = source;
            opts.multipass = multipass;
            opts.zoom = ZoomSpec::Manual(vec![256, 4096]);
            Case { input: BbInput { chroms: cs, unused: vec![], autosql: None }, opts, k2_nudged: 0, delay }
        })
        .boxed()
}

pub fn has_overlap(c: &BbChrom) -> bool {
    let mut max_end = 0u32;
    for (i, e) in c.entries.iter().enumerate() {
        if i > 0 && e.s < max_end {
            return true;
        }
        max_end = max_end.max(e.e);
    }
    false
}

pub fn label_shape_bb(input: &BbInput, o: &Opts, obs: &mut Obs) -> (usize, usize) {
    let max_sections = input
        .chroms
        .iter()
        .map(|c| sections(c.entries.len(), o.items_per_slot))
        .max()
        .unwrap_or(0);
    let total: usize = input
        .chroms
        .iter()
        .map(|c| sections(c.entries.len(), o.items_per_slot))
        .sum();
    let depth = index_depth(total, o.block_size);
    obs.label(&format!("chroms={}", input.chroms.len().min(7)));
    obs.label_if(max_sections >= 2, "multi-section-chrom");
    obs.label(&format!("index-levels={}", depth.min(4)));
    obs.label_if(input.chroms.iter().any(has_overlap), "overlapping-entries");
    obs.label_if(
        input.chroms.iter().any(|c| c.entries.windows(2).any(|w| w[0] == w[1])),
        "identical-entries",
    );
    obs.label_if(
        input.chroms.iter().any(|c| c.entries.iter().any(|e| e.s == e.e)),
        "zero-length-entry",
    );
    obs.label_if(
        input.chroms.iter().any(|c| c.entries.iter().any(|e| e.e > c.size)),
        "end-beyond-chrom",
    );
    obs.label_if(
        input
            .chroms
            .iter()
            .any(|c| c.entries.iter().any(|e| e.rest.is_empty())),
        "rest=0-columns",
    );
    obs.label_if(
        input
            .chroms
            .iter()
            .any(|c| c.entries.iter().any(|e| e.rest.split('\t').count() >= 15)),
        "rest>=15-columns",
    );
    obs.label_if(
        input
            .chroms
            .iter()
            .any(|c| c.entries.iter().any(|e| !e.rest.is_ascii())),
        "rest-utf8",
    );
    obs.label(match &input.autosql {
        None => "autosql=default",
        Some(_) => "autosql=supplied",
    });
    (max_sections, depth)
}

/// one chromosome with `n` overlapping entries, `ips` items per slot
pub fn big_case(n: usize, ips: u32) -> Case {
    let mut entries = Vec::with_capacity(n);
    for i in 0..n as u32 {
        entries.push(BbEntry { s: i * 3, e: i * 3 + 1 + (i % 7), rest: if i % 4 == 0 { String::new() } else { format!("n{}\t{}", i, i % 11) } });
    }
    let mut opts = Opts::default();
    opts.items_per_slot = ips;
    opts.threads = 3;
    Case {
        input: BbInput { chroms: vec![BbChrom { name: "chrBig".into(), size: n as u32 * 3 + 20, entries }], unused: vec![], autosql: None },
        opts,
        k2_nudged: 0,
        delay: None,
    }
}

/// `n` single-entry blocks under a fan-out-2 index: the full-span search visits about 2n nodes
pub fn deep_index_case(n: usize) -> Case {
    let mut c = big_case(n, 1);
    c.opts.block_size = 2;
    c.opts.zoom = ZoomSpec::Manual(vec![]);
    c.opts.compress = false;
    c
}

/// `n` single-entry blocks under one index leaf (fan-out 4096): a node of 64 KiB and more
pub fn wide_node_case(n: usize) -> Case {
    let mut c = big_case(n, 1);
    c.opts.block_size = 4096;
    c.opts.zoom = ZoomSpec::Manual(vec![]);
    c
}

/// a supplied schema of about `bytes` bytes (long field comments), 3 + 2 fields
pub fn long_autosql_case(bytes: usize) -> Case {
    let pad = "x".repeat(bytes / 2);
    let sql = format!(
        "table longComments\n\"a schema with very long comments\"\n(\nstring chrom; \"chromosome\"\nuint chromStart; \"start\"\nuint chromEnd; \"end\"\nstring name; \"{} é\"\nuint score; \"{}\"\n)\n",
        pad, pad
    );
    let mut c = big_case(40, 8);
    for e in c.input.chroms[0].entries.iter_mut() {
        e.rest = format!("n\t{}", e.s % 1000);
    }
    c.input.autosql = Some(sql);
    c
}

pub fn prefixed_autosql_case(prefix: &str) -> Case {
    let mut c = long_autosql_case(200);
    c.input.autosql = c.input.autosql.map(|a| format!("{}{}", prefix, a));
    c
}

impl Prop for C02 {
    type Case = Case;
    const ID: &'static str = "C02";
    fn rule() -> String {
        "generated (entry layout, autoSql, options, call shape) written with BigBedWrite into memory and read back; \
         non-trivial = at least one overlapping or nested pair AND >= 2 sections in one chromosome; distinct = distinct case JSON"
            .into()
    }
    fn technique() -> String {
        "property-based round trip (proptest strategies, model oracle), sharded over worker processes".into()
    }
    fn assumptions() -> Vec<String> {
        vec![
            "rest: 0..20 TAB-separated UTF-8 fields without control characters, last field non-empty, no trailing whitespace".into(),
            "supplied autoSql contains no NUL".into(),
            "entry start < chromosome size (writer's rule); ends may exceed the chromosome".into(),
        ]
    }
    fn cases(tier: Tier) -> u64 {
        tier.pick(15_000, 60_000)
    }
    fn fixed_cases(_tier: Tier) -> Vec<Case> {
        // the upper end of the items_per_slot range: one full section, one item more, two sections
        vec![
            big_case(65_535, 65535),
            big_case(65_536, 65535),
            big_case(70_000, 65535),
            // scale thresholds: an index search that has to visit more than 2^16 nodes (fan-out 2 over
            // 70 000 single-entry blocks), a schema longer than any 8 KiB read buffer
            deep_index_case(70_000),
            wide_node_case(3000),
            long_autosql_case(9_000),
            long_autosql_case(70_000),
            // a schema text that starts with a byte order mark / a zero-width character (kept verbatim)
            prefixed_autosql_case("\u{feff}"),
            prefixed_autosql_case("\u{200b}\u{feff} "),
        ]
    }
    fn strategy(tier: Tier) -> BoxedStrategy<Case> {
        prop_oneof![
            12 => gen::bb_case(tier, false, true).prop_map(make_case),
            1 => big_chroms(),
        ]
        .boxed()
    }
    fn probes() -> Vec<(String, String, Case)> {
        vec![(
            "K2".into(),
            crate::findings::what("K2"),
            Case {
                input: BbInput {
                    chroms: vec![BbChrom {
                        name: "chr1".into(),
                        size: 100,
                        entries: vec![
                            BbEntry { s: 0, e: 0, rest: "a".into() },
                            BbEntry { s: 5, e: 9, rest: "b".into() },
                        ],
                    }],
                    unused: vec![],
                    autosql: None,
                },
                opts: Opts::default(),
                k2_nudged: 0,
                delay: None,
            },
        )]
    }
    fn check(case: &Case, obs: &mut Obs) -> Result<(), String> {
        let input = &case.input;
        let o = &case.opts;
        gen::label_opts(o, obs);
        let (max_sections, _depth) = label_shape_bb(input, o, obs);
        obs.label_if(case.k2_nudged > 0, "excluded-K2-nudged");
        let sink = SharedSink::new();
        schedule(case.delay);
        obs.label_if(case.delay.is_some(), "delay-schedule-consumer-held-back");
        let wr = drive::write_bb(input, o, sink.clone());
        schedule(None);
        if let Err(e) = wr {
            obs.label("writer-refused");
            obs.notes.push(format!("writer refused generated input: {}", e));
            return Ok(());
        }
        obs.nontrivial = max_sections >= 2 && input.chroms.iter().any(has_overlap);
        let bytes = sink.bytes();
        let mut r = open_bb(bytes)?;
        check_chrom_table(r.chroms(), &bb_expected_chroms(input))?;
        let n = r.item_count().map_err(|e| format!("item_count failed: {}", e))?;
        if n != input.n_items() as u64 {
            return Err(format!("item_count() = {}, input had {} entries", n, input.n_items()));
        }
        let sql = r.autosql().map_err(|e| format!("autosql() failed: {}", e))?;
        let want_sql = input
            .autosql
            .clone()
            .unwrap_or_else(|| bigtools::bed::autosql::BED3.to_string());
        if sql.as_deref() != Some(want_sql.as_str()) {
            return Err(format!("autosql() = {:?}, supplied {:?}", sql, want_sql));
        }
        for c in &input.chroms {
            let got = read_bb_range(&mut r, &c.name, 0, c.size)?;
            if got != c.entries {
                return Err(format!(
                    "chromosome {:?}: full-span read differs from input: {}",
                    c.name,
                    first_diff_entries(&got, &c.entries)
                ));
            }
            obs.evals += 1;
        }
        Ok(())
    }
}
