//! C18 — slicing a text input for parallel work loses nothing and reorders nothing
use crate::runner::{mark_progress, Obs, Prop, Tier};
use bigtools::bed::bedparser::{BedFileStream, StreamingBedValues};
use bigtools::bed::indexer::index_chroms;
use bigtools::utils::file_view::FileView;
use bigtools::utils::split_file_into_chunks_by_size;
use proptest::prelude::*;
use serde::{Deserialize, Serialize};
use std::fs::File;
use std::io::{BufRead, BufReader, Read, Seek, SeekFrom, Write};
use std::panic::{catch_unwind, AssertUnwindSafe};

#[derive(Serialize, Deserialize, Clone, Debug, PartialEq)]
pub enum VOp {
    Read(u32),
    Start(u32),
    Current(i32),
    End(i32),
}

#[derive(Serialize, Deserialize, Clone, Debug)]
pub enum Case {
    /// enumerated: all run-length vectors for `nchroms` chromosomes (1..=max_run lines each) x
    /// one long line (x mult) at every position (or none) x final newline
    IndexGrid { nchroms: u8, max_run: u8, mult: u8, final_newline: bool, #[serde(default)] utf8: bool },
    /// one index / chunking / per-chromosome-view file: lines as (chromosome index, extra payload length)
    TextFile { lines: Vec<(u8, u32)>, final_newline: bool, grouped: bool },
    /// enumerated: all windows and all op sequences up to `max_ops` on a file of `len` bytes, window start `a`
    ViewGrid { len: u8, a: u8, max_ops: u8 },
    /// one FileView history
    View { len: u32, a: u32, b: u32, ops: Vec<VOp> },
}

pub struct C18;

fn tmp_path(tag: &str) -> std::path::PathBuf {
    let dir = std::env::var("VERIF_TMP").unwrap_or_else(|_| std::env::temp_dir().to_string_lossy().to_string());
    std::path::PathBuf::from(dir).join(format!("c18_{}_{}", tag, std::process::id()))
}

const NAMES: [&str; 8] = ["chr1", "chr2", "b", "zz", "chr10", "a", "X", "chrUn_1"];
/// the same chromosomes with multi-byte UTF-8 names (text files are UTF-8, not ASCII)
const NAMES_UTF8: [&str; 8] = ["chr1é", "世chr2", "ß", "zz世界", "chr10", "é", "Xé", "chrUn_世"];

fn render(lines: &[(u8, u32)], final_newline: bool) -> (Vec<u8>, Vec<(u64, String)>, Vec<u64>) {
    // returns text, linear index of runs, line start offsets
    let mut text = Vec::new();
    let mut idx: Vec<(u64, String)> = vec![];
    let mut starts = vec![];
    for (i, (c, extra)) in lines.iter().enumerate() {
        let utf8 = *c >= 100;
        // codes 0..7 and 100..107 name the table entries; larger codes get a numeric suffix (many chromosomes)
        let name: String = if utf8 {
            NAMES_UTF8[(*c as usize - 100) % NAMES_UTF8.len()].to_string()
        } else if (*c as usize) < NAMES.len() {
            NAMES[*c as usize].to_string()
        } else {
            format!("{}_{}", NAMES[*c as usize % NAMES.len()], *c as usize / NAMES.len())
        };
        let name = name.as_str();
        if idx.last().map(|l| l.1 != name).unwrap_or(true) {
            idx.push((text.len() as u64, name.to_string()));
        }
        starts.push(text.len() as u64);
        let s = i as u32 * 10;
        text.extend_from_slice(format!("{}\t{}\t{}", name, s, s + 5).as_bytes());
        if *extra > 0 {
            text.push(b'\t');
            if utf8 {
                // 3-byte characters: any byte offset inside is not a char boundary
                text.extend("世".repeat((*extra as usize + 2) / 3).as_bytes());
            } else {
                text.extend(std::iter::repeat(b'x').take(*extra as usize));
            }
        }
        if i + 1 < lines.len() || final_newline {
            text.push(b'\n');
        }
    }
    (text, idx, starts)
}

fn write_file(path: &std::path::Path, bytes: &[u8]) {
    let mut f = File::create(path).expect("create temp file");
    f.write_all(bytes).expect("write temp file");
}

/// all checks on one text file: index, chunking, per-chromosome views
fn check_text(lines: &[(u8, u32)], final_newline: bool, grouped: bool, path: &std::path::Path, obs: &mut Obs) -> Result<(), String> {
    mark_progress();
    let (text, idx, starts) = render(lines, final_newline);
    write_file(path, &text);
    let desc = || format!("file {:?} (final newline: {})", String::from_utf8_lossy(&text), final_newline);
    // --- index_chroms
    let r = catch_unwind(AssertUnwindSafe(|| index_chroms(File::open(path).unwrap())));
    let _ = crate::runner::take_last_panic();
    obs.evals += 1;
    match r {
        Err(_) => return Err(format!("index_chroms panicked on {}", desc())),
        Ok(r) => {
            if grouped {
                match r {
                    Ok(Some(v)) => {
                        if v != idx {
                            return Err(format!(
                                "index_chroms returned {:?}, the first line of each chromosome run is at {:?}; {}",
                                v,
                                idx,
                                desc()
                            ));
                        }
                    }
                    Ok(None) => return Err(format!("index_chroms reports 'not grouped' for a grouped file; {}", desc())),
                    Err(e) => return Err(format!("index_chroms failed on a well-formed grouped file: {}; {}", e, desc())),
                }
            } else {
                // bisection cannot promise detection of every ungrouped file: only the outcome is recorded
                obs.label(match r {
                    Ok(Some(_)) => "ungrouped->index",
                    Ok(None) => "ungrouped->none",
                    Err(_) => "ungrouped->err",
                });
            }
        }
    }
    // --- chunking: contiguous cover, every cut at a line start
    let size = text.len() as u64;
    for chunks in 1..=(lines.len() as u64 + 2) {
        mark_progress();
        let r = catch_unwind(AssertUnwindSafe(|| split_file_into_chunks_by_size(File::open(path).unwrap(), chunks)));
        let _ = crate::runner::take_last_panic();
        obs.evals += 1;
        let v = match r {
            Err(_) => return Err(format!("split_file_into_chunks_by_size({}) panicked on {}", chunks, desc())),
            Ok(Err(e)) => return Err(format!("split_file_into_chunks_by_size({}) failed: {}; {}", chunks, e, desc())),
            Ok(Ok(v)) => v,
        };
        let mut pos = 0u64;
        for (s, e) in &v {
            if *s != pos || e < s {
                return Err(format!(
                    "split_file_into_chunks_by_size({}) = {:?}: chunks are not contiguous from 0 (every byte must be in exactly one chunk); {}",
                    chunks,
                    v,
                    desc()
                ));
            }
            if *s != size && !starts.contains(s) && *s != 0 {
                return Err(format!(
                    "split_file_into_chunks_by_size({}) = {:?}: cut at {} is not a line start {:?}; {}",
                    chunks,
                    v,
                    s,
                    starts,
                    desc()
                ));
            }
            pos = *e;
        }
        if pos != size {
            return Err(format!(
                "split_file_into_chunks_by_size({}) = {:?} does not end at the file size {}; {}",
                chunks,
                v,
                size,
                desc()
            ));
        }
    }
    // --- consequence: the per-chromosome views concatenate to the serial record stream
    if grouped {
        mark_progress();
        let serial: Vec<String> = BufReader::new(File::open(path).unwrap()).lines().map(|l| l.unwrap()).collect();
        let mut par: Vec<String> = vec![];
        for (i, (off, _)) in idx.iter().enumerate() {
            let end = idx.get(i + 1).map(|n| n.0).unwrap_or(u64::MAX);
            let view = FileView::new(File::open(path).unwrap(), *off, end).map_err(|e| format!("FileView::new failed: {}", e))?;
            for l in BufReader::new(view).lines() {
                par.push(l.map_err(|e| format!("reading a view failed: {}", e))?);
            }
        }
        obs.evals += 1;
        if par != serial {
            return Err(format!(
                "records seen through the per-chromosome views {:?} differ from the serial stream {:?}",
                par, serial
            ));
        }
        // the same through the crate's own record reader (what the serial and the parallel source use)
        mark_progress();
        let serial_rec = parse_records(File::open(path).unwrap()).map_err(|e| format!("serial record reader failed: {}; {}", e, desc()))?;
        let mut par_rec = vec![];
        for (i, (off, _)) in idx.iter().enumerate() {
            let end = idx.get(i + 1).map(|n| n.0).unwrap_or(u64::MAX);
            let view = FileView::new(File::open(path).unwrap(), *off, end).map_err(|e| format!("FileView::new failed: {}", e))?;
            par_rec.extend(parse_records(view).map_err(|e| format!("record reader over the view [{}, {}) failed: {}; {}", off, end, e, desc()))?);
        }
        obs.evals += 1;
        if par_rec != serial_rec {
            let k = par_rec.iter().zip(serial_rec.iter()).position(|(a, b)| a != b).unwrap_or(par_rec.len().min(serial_rec.len()));
            return Err(format!(
                "the record stream read through the per-chromosome views differs from the serial record stream at record #{}: {:?} vs {:?} ({} vs {} records); {}",
                k,
                par_rec.get(k),
                serial_rec.get(k),
                par_rec.len(),
                serial_rec.len(),
                desc()
            ));
        }
    }
    Ok(())
}

fn parse_records<R: Read>(r: R) -> Result<Vec<(String, u32, u32, String)>, String> {
    let r = catch_unwind(AssertUnwindSafe(|| {
        let mut st = BedFileStream::from_bed_file(r);
        let mut out = vec![];
        loop {
            match st.next() {
                None => break,
                Some(Ok((c, e))) => out.push((c.to_string(), e.start, e.end, e.rest)),
                Some(Err(e)) => return Err(e.to_string()),
            }
        }
        Ok(out)
    }));
    let p = crate::runner::take_last_panic();
    match r {
        Ok(x) => x,
        Err(_) => Err(format!("panicked ({})", p)),
    }
}

// ---------------------------------------------------------------------------------------------
// FileView against the two admissible semantics

#[derive(Clone, Debug)]
struct Sem {
    clamp: bool,
    pos: i64,
}

fn apply_sem(sem: &mut Sem, op: &VOp, win: &[u8]) -> Result<(Option<u64>, Option<Vec<u8>>), ()> {
    // returns (position result, bytes read); Err(()) = the operation reports an error
    let len = win.len() as i64;
    match op {
        VOp::Read(n) => {
            let p = sem.pos.min(len).max(0);
            let avail = (len - p).max(0) as usize;
            let k = (*n as usize).min(avail);
            let out = if sem.pos >= len { vec![] } else { win[p as usize..p as usize + k].to_vec() };
            sem.pos += out.len() as i64;
            Ok((None, Some(out)))
        }
        VOp::Start(k) => {
            sem.pos = if sem.clamp { (*k as i64).min(len) } else { *k as i64 };
            Ok((Some(sem.pos as u64), None))
        }
        VOp::Current(d) => {
            let np = sem.pos + *d as i64;
            if sem.clamp {
                sem.pos = np.clamp(0, len);
            } else {
                if np < 0 {
                    return Err(());
                }
                sem.pos = np;
            }
            Ok((Some(sem.pos as u64), None))
        }
        VOp::End(d) => {
            if sem.clamp {
                let d = (*d as i64).min(0);
                sem.pos = (len + d).clamp(0, len);
            } else {
                let np = len + *d as i64;
                if np < 0 {
                    return Err(());
                }
                sem.pos = np;
            }
            Ok((Some(sem.pos as u64), None))
        }
    }
}

fn run_view(file: &[u8], path: &std::path::Path, a: u32, b: u32, ops: &[VOp]) -> Result<(), String> {
    let a = (a as usize).min(file.len());
    let b = (b as usize).clamp(a, file.len().max(a));
    let win = &file[a..b.min(file.len())];
    let desc = || format!("file of {} bytes, window [{}, {}), operations {:?}", file.len(), a, b, ops);
    let r = catch_unwind(AssertUnwindSafe(|| -> Result<(), String> {
        let mut v = FileView::new(File::open(path).unwrap(), a as u64, b as u64).map_err(|e| format!("FileView::new failed: {}", e))?;
        let mut sems = vec![Sem { clamp: true, pos: 0 }, Sem { clamp: false, pos: 0 }];
        for (i, op) in ops.iter().enumerate() {
            // the view's answer
            let got: Result<(Option<u64>, Option<Vec<u8>>), ()> = match op {
                VOp::Read(n) => {
                    let mut buf = vec![0u8; *n as usize];
                    match v.read(&mut buf) {
                        Ok(k) => {
                            buf.truncate(k);
                            Ok((None, Some(buf)))
                        }
                        Err(_) => Err(()),
                    }
                }
                VOp::Start(k) => v.seek(SeekFrom::Start(*k as u64)).map(|p| (Some(p), None)).map_err(|_| ()),
                VOp::Current(d) => v.seek(SeekFrom::Current(*d as i64)).map(|p| (Some(p), None)).map_err(|_| ()),
                VOp::End(d) => v.seek(SeekFrom::End(*d as i64)).map(|p| (Some(p), None)).map_err(|_| ()),
            };
            sems = sems
                .into_iter()
                .filter_map(|mut s| {
                    let want = apply_sem(&mut s, op, win);
                    if want == got {
                        Some(s)
                    } else {
                        None
                    }
                })
                .collect();
            if sems.is_empty() {
                return Err(format!(
                    "operation #{} ({:?}) answered {:?}: neither 'clamp into the window' nor std::io::Cursor semantics over the window's bytes explains the history so far",
                    i, op, got
                ));
            }
        }
        Ok(())
    }));
    let p = crate::runner::take_last_panic();
    match r {
        Err(_) => Err(format!("FileView panicked ({}); {}", p, desc())),
        Ok(Err(m)) => Err(format!("{}; {}", m, desc())),
        Ok(Ok(())) => Ok(()),
    }
}

fn view_alphabet(len: u32) -> Vec<VOp> {
    let m = len + 2;
    let mut v = vec![];
    for n in 0..=m {
        v.push(VOp::Read(n));
    }
    for k in 0..=m {
        v.push(VOp::Start(k));
    }
    for d in -(m as i32)..=(m as i32) {
        v.push(VOp::Current(d));
        v.push(VOp::End(d));
    }
    v
}

fn file_bytes(len: u32) -> Vec<u8> {
    (0..len).map(|i| b'a' + (i % 23) as u8).collect()
}

fn run_lengths(nchroms: usize, max_run: u8) -> Vec<Vec<u8>> {
    let mut out: Vec<Vec<u8>> = vec![vec![]];
    for _ in 0..nchroms {
        let mut next = vec![];
        for p in &out {
            for r in 1..=max_run {
                let mut q = p.clone();
                q.push(r);
                next.push(q);
            }
        }
        out = next;
    }
    out
}

impl Prop for C18 {
    type Case = Case;
    const ID: &'static str = "C18";
    const TERMINATION: bool = false;
    fn rule() -> String {
        "ENUMERATED: (a) text files described by run lengths for 1..=4 chromosomes (1..=4 lines each) x {all lines short; exactly one line 3x / 10x / 40x longer, at every position} x {with, without final newline}: \
         index_chroms must return exactly the linear scan's (offset, chromosome) list; split_file_into_chunks_by_size for every chunk count 1..=lines+2 must give contiguous chunks from 0 to the file size cut only at line starts; \
         the per-chromosome FileViews must concatenate to the serial line stream. (b) FileView: files of 0..=4 bytes (thorough 0..=6), every window [a,b), every sequence of <= 3 operations over read(n), seek(Start k), seek(Current +-k), seek(End +-k) with n,k <= len+2: \
         the history must be explained by 'positions clamp into the window' or by std::io::Cursor semantics over the window's bytes; a panic is always a violation. GENERATED: larger text files (grouped and ungrouped — for ungrouped only 'returns' is required) and FileView histories of <= 40 operations on files up to 300 bytes. \
         non-trivial (text) = a long line that is not the first line of the file; (view) = window start > 0; every enumerated sub-case is distinct by construction"
            .into()
    }
    fn technique() -> String {
        "exhaustive small-scope enumeration + generated histories; oracles: linear scan, slice model under a set of admissible semantics".into()
    }
    fn assumptions() -> Vec<String> {
        vec![
            "index_chroms is only required to detect ungrouped files when it can (bisection): for those only termination without panic is asserted".into(),
            "reads from a local file are not short".into(),
        ]
    }
    fn exhaustive(_tier: Tier) -> bool {
        true
    }
    fn cases(tier: Tier) -> u64 {
        tier.pick(20_000, 200_000)
    }
    fn strategy(_tier: Tier) -> BoxedStrategy<Case> {
        let text = (
            proptest::collection::vec((1usize..=30, prop_oneof![16 => Just(0u32), 4 => 1u32..40, 2 => 40u32..4000, 1 => 8000u32..20_000]), 1..=8),
            any::<bool>(),
            prop::bool::weighted(0.8),
            any::<u8>(),
            prop::bool::weighted(0.3),
        )
            .prop_map(|(runs, final_newline, grouped, rot, utf8)| {
                let mut lines = vec![];
                for (ci, (n, extra)) in runs.iter().enumerate() {
                    let c = if grouped { ci as u8 } else { (ci as u8).wrapping_add(rot) % 3 } + if utf8 { 100 } else { 0 };
                    for k in 0..*n {
                        // the long payload goes on one line of the run
                        lines.push((c, if k == n / 2 { *extra } else { 0 }));
                    }
                }
                // grouped means every chromosome forms one run
                let mut seen = vec![];
                let mut really_grouped = true;
                for (i, l) in lines.iter().enumerate() {
                    if i == 0 || lines[i - 1].0 != l.0 {
                        if seen.contains(&l.0) {
                            really_grouped = false;
                        }
                        seen.push(l.0);
                    }
                }
                Case::TextFile { lines, final_newline, grouped: really_grouped }
            });
        let view = (0u32..300, any::<u16>(), any::<u16>())
            .prop_flat_map(|(len, a, b)| {
                let m = len as i32 + 5;
                let op = prop_oneof![
                    3 => (0u32..=(len + 5)).prop_map(VOp::Read),
                    2 => (0u32..=(len + 5)).prop_map(VOp::Start),
                    2 => (-m..=m).prop_map(VOp::Current),
                    2 => (-m..=m).prop_map(VOp::End),
                ];
                (Just(len), Just(a), Just(b), proptest::collection::vec(op, 1..=40))
            })
            .prop_map(|(len, a, b, ops)| {
                let a = ((a as u64 * (len as u64 + 1)) >> 16) as u32;
                let b = a + ((b as u64 * ((len - a) as u64 + 1)) >> 16) as u32;
                Case::View { len, a, b, ops }
            });
        prop_oneof![text, view].boxed()
    }
    fn fixed_cases(tier: Tier) -> Vec<Case> {
        let mut geo = geometric_layouts();
        let mut v = Self::grid_cases(tier);
        v.append(&mut geo);
        v
    }
    fn check(case: &Case, obs: &mut Obs) -> Result<(), String> {
        match case {
            Case::IndexGrid { nchroms, max_run, mult, final_newline, utf8 } => {
                obs.label(if *utf8 { "text-grid-utf8" } else { "text-grid" });
                let path = tmp_path("idx");
                for runs in run_lengths(*nchroms as usize, *max_run) {
                    let total: usize = runs.iter().map(|r| *r as usize).sum();
                    let base: Vec<(u8, u32)> = runs
                        .iter()
                        .enumerate()
                        .flat_map(|(ci, r)| std::iter::repeat((ci as u8 + if *utf8 { 100 } else { 0 }, 0u32)).take(*r as usize))
                        .collect();
                    let positions: Vec<Option<usize>> = if *mult == 0 { vec![None] } else { (0..total).map(Some).collect() };
                    for pos in positions {
                        let mut lines = base.clone();
                        if let Some(p) = pos {
                            // a short line is ~10 bytes: the long one is mult times that
                            lines[p].1 = 10 * (*mult as u32);
                            if p > 0 {
                                obs.nt_extra += 1;
                            }
                        }
                        check_text(&lines, *final_newline, true, &path, obs).map_err(|m| {
                            obs.reduced = Some(
                                serde_json::to_value(Case::TextFile { lines: lines.clone(), final_newline: *final_newline, grouped: true }).unwrap(),
                            );
                            m
                        })?;
                    }
                }
                let _ = std::fs::remove_file(&path);
                obs.nontrivial = *mult > 0;
                Ok(())
            }
            Case::TextFile { lines, final_newline, grouped } => {
                obs.label(if *grouped { "text-grouped" } else { "text-ungrouped" });
                let path = tmp_path("txt");
                let r = check_text(lines, *final_newline, *grouped, &path, obs);
                let _ = std::fs::remove_file(&path);
                obs.nontrivial = lines.iter().skip(1).any(|l| l.1 > 30);
                r
            }
            Case::ViewGrid { len, a, max_ops } => {
                obs.label("view-grid");
                let path = tmp_path("view");
                let file = file_bytes(*len as u32);
                write_file(&path, &file);
                let alpha = view_alphabet(*len as u32);
                for b in *a..=*len {
                    // sequences of 1..=max_ops operations
                    let mut idx = vec![0usize; 1];
                    loop {
                        mark_progress();
                        let ops: Vec<VOp> = idx.iter().map(|i| alpha[*i].clone()).collect();
                        run_view(&file, &path, *a as u32, b as u32, &ops).map_err(|m| {
                            obs.reduced =
                                Some(serde_json::to_value(Case::View { len: *len as u32, a: *a as u32, b: b as u32, ops: ops.clone() }).unwrap());
                            m
                        })?;
                        obs.evals += 1;
                        if *a > 0 {
                            obs.nt_extra += 1;
                        }
                        // next sequence (odometer, growing length)
                        let mut k = idx.len();
                        loop {
                            if k == 0 {
                                break;
                            }
                            k -= 1;
                            idx[k] += 1;
                            if idx[k] < alpha.len() {
                                break;
                            }
                            idx[k] = 0;
                            if k == 0 {
                                idx.push(0);
                                break;
                            }
                        }
                        if idx.len() > *max_ops as usize {
                            break;
                        }
                    }
                }
                let _ = std::fs::remove_file(&path);
                obs.nontrivial = *a > 0;
                Ok(())
            }
            Case::View { len, a, b, ops } => {
                obs.label("view-generated");
                let path = tmp_path("v1");
                let file = file_bytes(*len);
                write_file(&path, &file);
                let r = run_view(&file, &path, *a, *b, ops);
                let _ = std::fs::remove_file(&path);
                obs.nontrivial = *a > 0;
                r
            }
        }
    }
}

impl C18 {
    fn grid_cases(tier: Tier) -> Vec<Case> {
        let mut v = vec![];
        let (maxc, maxr) = tier.pick((4u8, 4u8), (5u8, 5u8));
        for nchroms in 1..=maxc {
            for mult in [0u8, 3, 10, 40] {
                for final_newline in [true, false] {
                    for utf8 in [false, true] {
                        v.push(Case::IndexGrid { nchroms, max_run: maxr, mult, final_newline, utf8 });
                    }
                }
            }
        }
        let maxlen = tier.pick(5u8, 7u8);
        for len in 0..=maxlen {
            for a in 0..=len {
                v.push(Case::ViewGrid { len, a, max_ops: if len <= 5 { 3 } else { 2 } });
            }
        }
        v
    }
}

/// one-line chromosomes whose line lengths alternate short / as-long-as-everything-before (the worst case
/// for a bisecting indexer: every probe lands in the long last line), 4..=10 pairs, both endings;
/// and the same with lines beyond 8 KiB in the middle of runs
fn geometric_layouts() -> Vec<Case> {
    // byte length of line #i for chromosome code c without its payload: "name\ts\te" + '\n'
    let plain_len = |c: u8, i: usize| -> u32 {
        let name = if (c as usize) < NAMES.len() { NAMES[c as usize].to_string() } else { format!("{}_{}", NAMES[c as usize % NAMES.len()], c as usize / NAMES.len()) };
        let s = i as u32 * 10;
        (format!("{}\t{}\t{}", name, s, s + 5).len() + 1) as u32
    };
    let mut v = vec![];
    // short, long, short, long, ...: every long line is (everything before it) + delta bytes long
    for pairs in 4..=9usize {
        for delta in [-2i64, -1, 0, 1, 2, 17] {
            for (final_newline, long_first) in [(true, false), (false, false), (true, true)] {
                let mut lines: Vec<(u8, u32)> = vec![];
                let mut bytes = 0u32;
                if !long_first {
                    bytes += plain_len(0, 0);
                    lines.push((0, 0));
                }
                for _ in 0..pairs {
                    let c = lines.len() as u8;
                    let plain = plain_len(c, lines.len());
                    let target = (bytes as i64 + delta).max(plain as i64 + 2) as u32;
                    let extra = target - plain - 1; // the TAB in front of the payload
                    lines.push((c, extra));
                    bytes += plain + 1 + extra;
                    let c = lines.len() as u8;
                    bytes += plain_len(c, lines.len());
                    lines.push((c, 0));
                }
                v.push(Case::TextFile { lines, final_newline, grouped: true });
            }
        }
    }
    // names where one is a proper prefix of the next (chr1 -> chr10, chr1 -> chr1_1, chr1 -> chr1_2 ...),
    // the first line of the second run as long as / longer than the lines before it
    for (a, b) in [(0u8, 4u8), (0, 8), (8, 16), (1, 9)] {
        for extra_b in [0u32, 1, 2, 3, 40] {
            for na in 1..=3usize {
                for final_newline in [true, false] {
                    let mut lines: Vec<(u8, u32)> = vec![(a, 0); na];
                    lines.push((b, extra_b));
                    lines.push((b, 0));
                    lines.push((b, 0));
                    v.push(Case::TextFile { lines, final_newline, grouped: true });
                }
            }
        }
    }
    for long in [8191u32, 8192, 8193, 20_000, 70_000, 1_200_000, 2_600_000] {
        v.push(Case::TextFile { lines: vec![(0, 0), (0, long), (0, 0), (1, 0), (1, long), (2, 0)], final_newline: true, grouped: true });
        v.push(Case::TextFile { lines: vec![(0, long), (1, 0), (1, 0), (2, long)], final_newline: false, grouped: true });
    }
    v
}
