//! running the command-line tools built from the working tree (`VERIF_BIN`, set by ./check)
use crate::runner::mark_progress;
use std::io::Read;
use std::process::{Command, Stdio};
use std::time::{Duration, Instant};

pub fn bindir() -> Option<String> {
    std::env::var("VERIF_BIN").ok().filter(|d| std::path::Path::new(&format!("{}/bigtools", d)).exists())
}

#[derive(Debug, Clone)]
pub struct ToolOut {
    /// exit code (None: killed by a signal)
    pub code: Option<i32>,
    pub stderr: String,
    /// still running after the limit (the child was killed)
    pub timed_out: bool,
}

impl ToolOut {
    /// Rust's panic exit status (the main thread unwound), an abort, or any other death by signal.
    /// A panic message on stderr with an ordinary error exit is a panic contained in a spawned task.
    pub fn panicked(&self) -> bool {
        !self.timed_out && (self.code == Some(101) || self.code.is_none())
    }
    pub fn contained_panic(&self) -> bool {
        !self.panicked() && self.stderr.contains("panicked at")
    }
}

/// run `tool args...` with a wall-clock limit; the child is killed when the limit passes
pub fn run_tool(tool: &str, args: &[String], env: &[(String, String)], limit_s: u64) -> Result<ToolOut, String> {
    let bins = bindir().ok_or("the command-line binaries are not built (VERIF_BIN): ./check builds them")?;
    mark_progress();
    let mut c = Command::new(format!("{}/{}", bins, tool));
    c.args(args).env("RUST_BACKTRACE", "0").stdin(Stdio::null()).stdout(Stdio::null()).stderr(Stdio::piped());
    for (k, v) in env {
        c.env(k, v);
    }
    let mut child = c.spawn().map_err(|e| format!("cannot run {}: {}", tool, e))?;
    let mut errpipe = child.stderr.take().expect("stderr pipe");
    let reader = std::thread::spawn(move || {
        let mut s = Vec::new();
        let _ = errpipe.read_to_end(&mut s);
        String::from_utf8_lossy(&s).to_string()
    });
    let t0 = Instant::now();
    let mut timed_out = false;
    let status = loop {
        match child.try_wait().map_err(|e| e.to_string())? {
            Some(st) => break Some(st),
            None => {
                if t0.elapsed() > Duration::from_secs(limit_s) {
                    timed_out = true;
                    let _ = child.kill();
                    let _ = child.wait();
                    break None;
                }
                std::thread::sleep(Duration::from_millis(if t0.elapsed() < Duration::from_millis(50) { 1 } else { 10 }));
            }
        }
        mark_progress();
    };
    let stderr = reader.join().unwrap_or_default();
    mark_progress();
    Ok(ToolOut { code: status.and_then(|s| s.code()), stderr, timed_out })
}

pub fn tmpdir(prefix: &str) -> Result<tempfile::TempDir, String> {
    tempfile::Builder::new()
        .prefix(prefix)
        .tempdir_in(std::env::var("VERIF_TMP").unwrap_or_else(|_| std::env::temp_dir().to_string_lossy().to_string()))
        .map_err(|e| e.to_string())
}
