//! C17 — per-region bigWig statistics and values are exact and thread-count independent
use super::c01;
use super::c03::{pos_sel, scale, PosSel};
use super::common::*;
use crate::drive;
use crate::gen;
use crate::model::*;
use crate::runner::{mark_progress, Obs, Prop, Tier};
use crate::sink::SharedSink;
use bigtools::utils::misc::{bigwig_average_over_bed, stats_for_bed_item, Name};
use bigtools::BedEntry;
use proptest::prelude::*;
use proptest::sample::select;
use serde::{Deserialize, Serialize};
use std::process::Command;

#[derive(Serialize, Deserialize, Clone, Debug, PartialEq)]
pub struct Region {
    pub c: u16,
    pub a: PosSel,
    pub b: PosSel,
    /// number of columns after chrom/start/end (the first one is a unique name)
    pub extra: u8,
}

#[derive(Serialize, Deserialize, Clone, Copy, Debug, PartialEq)]
pub enum NameMode {
    Default,
    Column(u8),
    Interval,
    None,
}

#[derive(Serialize, Deserialize, Clone, Debug)]
pub struct Case {
    pub file: c01::Case,
    pub regions: Vec<Region>,
    pub name: NameMode,
    pub min_max: bool,
    /// thread counts for the tool (compared with -t 1); empty = library only
    pub threads: Vec<u8>,
    /// the BED text ends without a final newline
    #[serde(default)]
    pub no_final_newline: bool,
    /// the middle row carries an additional last column of this many bytes (rows beyond any read buffer)
    #[serde(default)]
    pub long_col: u32,
}

pub struct C17;

fn bin(name: &str) -> Option<String> {
    let dir = std::env::var("VERIF_BIN").ok()?;
    let p = format!("{}/{}", dir, name);
    std::path::Path::new(&p).exists().then_some(p)
}

struct Row {
    chrom: String,
    s: u32,
    e: u32,
    rest: String,
    ci: usize,
}

fn close(got: f64, want: f64, scale: f64) -> bool {
    if want.is_nan() || got.is_nan() {
        return want.is_nan() && got.is_nan();
    }
    close_f64(got, want, scale.max(want.abs()))
}

fn close3(got: f64, want: f64) -> bool {
    if want.is_nan() || got.is_nan() {
        return want.is_nan() && got.is_nan();
    }
    if want.is_infinite() || got.is_infinite() {
        return want == got;
    }
    (got - want).abs() <= 0.00051 + 1e-9 * want.abs()
}

fn expected_name(mode: NameMode, r: &Row) -> Option<String> {
    let cols: Vec<&str> = if r.rest.is_empty() { vec![] } else { r.rest.split('\t').collect() };
    match mode {
        NameMode::Interval => Some(format!("{}:{}-{}", r.chrom, r.s, r.e)),
        NameMode::None => Some(format!("{}\t{}\t{}\t{}", r.chrom, r.s, r.e, r.rest)),
        NameMode::Default => cols.first().map(|c| c.to_string()),
        NameMode::Column(n) => match n {
            1 => Some(r.chrom.clone()),
            2 => Some(r.s.to_string()),
            3 => Some(r.e.to_string()),
            n => cols.get(n as usize - 4).map(|c| c.to_string()),
        },
    }
}

fn lib_name(mode: NameMode) -> Name {
    match mode {
        NameMode::Default => Name::Column(3),
        NameMode::Column(n) => Name::Column(n as usize - 1),
        NameMode::Interval => Name::Interval,
        NameMode::None => Name::None,
    }
}

struct Want {
    size: u32,
    bases: u64,
    sum: f64,
    abs: f64,
    mean0: f64,
    mean: f64,
    min: f64,
    max: f64,
    zl: Vec<f64>,
}

fn want_for(ch: &BwChrom, s: u32, e: u32) -> Want {
    let st = ch.stats(s, e);
    let zl: Vec<f64> = ch.vals.iter().filter(|v| v.s == v.e && v.s > s && v.s < e).map(|v| v.v as f64).collect();
    Want {
        size: e - s,
        bases: st.bases,
        sum: st.sum,
        abs: st.abs_sum,
        mean0: st.sum / (e - s) as f64,
        mean: if st.bases == 0 { f64::NAN } else { st.sum / st.bases as f64 },
        min: if st.bases == 0 { f64::NAN } else { st.min },
        max: if st.bases == 0 { f64::NAN } else { st.max },
        zl,
    }
}

fn minmax_ok(got: f64, want: f64, zl: &[f64], is_min: bool) -> bool {
    if want.is_nan() {
        return got.is_nan();
    }
    got == want || zl.iter().any(|z| *z == got && if is_min { *z < want } else { *z > want })
}

/// an older result of the same shape: `n` well-formed rows that no generated region produces
fn stale_rows(n: usize) -> String {
    let mut t = String::new();
    for k in 0..n {
        t.push_str(&format!("zzStale{}\t10\t5\t2.500\t0.250\t0.500\t0.100\t0.900\n", k));
    }
    t
}

impl Prop for C17 {
    type Case = Case;
    const ID: &'static str = "C17";
    fn rule() -> String {
        "a C01 bigWig and a generated BED region list (1..200 rows; regions inside one value, straddling values and gaps, between values, beyond all data, zero length; 3..8 columns) on chromosomes present in the file; \
         LIBRARY: stats_for_bed_item and bigwig_average_over_bed against the model (size, covered bases, sum, mean0 = sum/size, mean = sum/bases, min, max; NaN mean/min/max when nothing is covered; for zero-length regions size, bases, sum, and NaN mean / min / max); \
         TOOL: bigwigaverageoverbed with name mode {default column 4, column n, interval, none}, --min-max, -t in 1..16: one row per input row in input order, expected name column, numeric fields within the printed 3 decimals, byte-identical output for every -t; \
         bigwigvaluesoverbed: one row per region with `size` values, each covered base equal to the stored value (uncovered: 0 or NaN); half of the output paths already hold an older, longer result. \
         non-trivial = more regions than threads AND a region straddling >= 2 values and a gap; distinct = distinct case JSON"
            .into()
    }
    fn technique() -> String {
        "property-based testing against the reference model + CLI differential across thread counts".into()
    }
    fn assumptions() -> Vec<String> {
        vec![
            "regions only on chromosomes present in the bigWig, start <= end <= chromosome length".into(),
            "a zero-length stored value strictly inside a region may or may not take part in min/max".into(),
        ]
    }
    fn cases(tier: Tier) -> u64 {
        tier.pick(30_000, 150_000)
    }
    fn strategy(tier: Tier) -> BoxedStrategy<Case> {
        let region = (any::<u16>(), pos_sel(), pos_sel(), 0u8..=5).prop_map(|(c, a, b, extra)| Region { c, a, b, extra });
        (
            gen::bw_case(tier, false).prop_map(c01::make_case),
            prop_oneof![
                40 => proptest::collection::vec(region.clone(), 1..=12),
                10 => proptest::collection::vec(region.clone(), 12..=200),
                // a BED file large enough that one thread's chunk spans several read buffers (> 8 KiB)
                1 => proptest::collection::vec(region, 900..=3000),
            ],
            prop_oneof![
                2 => Just(NameMode::Default),
                3 => (1u8..=8).prop_map(NameMode::Column),
                2 => Just(NameMode::Interval),
                2 => Just(NameMode::None),
            ],
            any::<bool>(),
            prop_oneof![
                10 => Just(vec![]),
                // tool runs: a few thread counts per case, high counts (many small chunks, remainders
                // of the byte size that exceed a short last row) as likely as low ones
                3 => proptest::collection::vec(prop_oneof![1 => 2u8..=16, 1 => 11u8..=16], 1..=3),
            ],
            prop::bool::weighted(0.3),
            prop_oneof![12 => Just(0u32), 1 => select(vec![8192u32, 12_000, 70_000])],
        )
            .prop_map(|(file, regions, name, min_max, threads, no_final_newline, long_col)| {
                // the large files always go through the tool with few threads (big chunks)
                let threads = if regions.len() >= 900 { vec![2, 3] } else { threads };
                Case { file, regions, name, min_max, threads, no_final_newline, long_col }
            })
            .boxed()
    }
    fn check(case: &Case, obs: &mut Obs) -> Result<(), String> {
        let input = &case.file.input;
        let mut o = case.file.opts.clone();
        // the bigWig is only an input here: keep it cheap to write
        o.zoom = ZoomSpec::Manual(vec![]);
        o.source = SourceKind::Infallible;
        o.threads = 0;
        let sink = SharedSink::new();
        if let Err(e) = drive::write_bw(input, &o, sink.clone()) {
            obs.label("writer-refused");
            obs.notes.push(format!("writer refused generated input: {}", e));
            return Ok(());
        }
        let bytes = sink.bytes();
        let bounds: Vec<Vec<(u32, u32)>> = input.chroms.iter().map(|c| c.vals.iter().map(|v| (v.s, v.e)).collect()).collect();
        // rows
        let mut rows: Vec<Row> = vec![];
        for (i, r) in case.regions.iter().enumerate() {
            let ci = scale(r.c, input.chroms.len());
            let ch = &input.chroms[ci];
            let p = r.a.resolve(&bounds[ci], ch.size);
            let q = r.b.resolve(&bounds[ci], ch.size);
            let (s, e) = (p.min(q), p.max(q));
            let need = match case.name {
                NameMode::Default => 1,
                NameMode::Column(n) => (n as i32 - 3).max(0) as u8,
                _ => 0,
            };
            let extra = r.extra.max(need);
            // every fifth row pads its columns with blanks (kept verbatim: columns are TAB-separated);
            // the last column gets no trailing blank, the line reader drops white space at the line end
            let padded = i % 5 == 2;
            let rest = (0..extra)
                .map(|k| {
                    let col = if k == 0 { format!("reg{}", i) } else { format!("c{}_{}", k, i % 7) };
                    if !padded {
                        col
                    } else if k + 1 == extra {
                        format!(" {}", col)
                    } else if k % 2 == 0 {
                        format!(" {} ", col)
                    } else {
                        format!("{}  ", col)
                    }
                })
                .collect::<Vec<_>>()
                .join("\t");
            rows.push(Row { chrom: ch.name.clone(), s, e, rest, ci });
        }
        // a third of the cases repeat some rows verbatim on another chromosome (same start, end and columns)
        // directly after the original: neighbouring rows that differ in the chromosome only
        if rows.len() % 3 == 0 && input.chroms.len() >= 2 {
            let mut k = 0;
            while k < rows.len() {
                let r = &rows[k];
                if let Some((cj, ch)) = input.chroms.iter().enumerate().find(|(cj, ch)| *cj != r.ci && ch.size >= r.e) {
                    let twin = Row { chrom: ch.name.clone(), s: r.s, e: r.e, rest: r.rest.clone(), ci: cj };
                    rows.insert(k + 1, twin);
                    k += 1;
                }
                k += 4;
            }
            obs.label("rows-repeated-on-another-chromosome");
        }
        if case.long_col > 0 && !rows.is_empty() {
            let k = rows.len() / 2;
            let pad = "x".repeat(case.long_col as usize);
            rows[k].rest = if rows[k].rest.is_empty() { format!("longrow\t{}", pad) } else { format!("{}\t{}", rows[k].rest, pad) };
            obs.label("row-longer-than-8KiB");
        }
        let straddle = rows.iter().any(|r| {
            let ch = &input.chroms[r.ci];
            let inside: Vec<&BwVal> = ch.vals.iter().filter(|v| v.e > v.s && v.s < r.e && v.e > r.s).collect();
            inside.len() >= 2 && inside.windows(2).any(|w| w[0].e < w[1].s)
        });
        obs.label_if(straddle, "region-straddles-values-and-gap");
        obs.label_if(rows.iter().any(|r| r.s == r.e), "zero-length-region");
        obs.label(&format!("name={:?}", case.name).split('(').next().unwrap().to_string());
        obs.label(&format!("rows={}", match rows.len() { 0..=3 => "1-3", 4..=12 => "4-12", 13..=899 => "13-899", _ => ">=900 (chunks > 8 KiB)" }));

        // ---- library: stats_for_bed_item
        let mut rd = open_bw(bytes.clone())?;
        for r in &rows {
            let ch = &input.chroms[r.ci];
            let w = want_for(ch, r.s, r.e);
            let got = stats_for_bed_item(&r.chrom, BedEntry { start: r.s, end: r.e, rest: r.rest.clone() }, &mut rd)
                .map_err(|e| format!("stats_for_bed_item({:?},{},{}) failed: {}", r.chrom, r.s, r.e, e))?;
            let what = format!("stats_for_bed_item({:?},{},{})", r.chrom, r.s, r.e);
            if got.size != w.size || got.bases as u64 != w.bases {
                return Err(format!("{}: size {} / bases {}, model says {} / {}", what, got.size, got.bases, w.size, w.bases));
            }
            if !close(got.sum, w.sum, w.abs) {
                return Err(format!("{}: sum {}, model says {}", what, got.sum, w.sum));
            }
            if w.size > 0 {
                if !close(got.mean0, w.mean0, w.abs / w.size as f64) {
                    return Err(format!("{}: mean0 {}, model says {}", what, got.mean0, w.mean0));
                }
                if !close(got.mean, w.mean, w.abs / w.bases.max(1) as f64) {
                    return Err(format!("{}: mean {}, model says {}", what, got.mean, w.mean));
                }
                if !minmax_ok(got.min, w.min, &w.zl, true) {
                    return Err(format!("{}: min {}, model says {}", what, got.min, w.min));
                }
                if !minmax_ok(got.max, w.max, &w.zl, false) {
                    return Err(format!("{}: max {}, model says {}", what, got.max, w.max));
                }
            } else if !(got.mean.is_nan() && got.min.is_nan() && got.max.is_nan()) {
                // an empty region covers nothing: NaN mean over covered bases and NaN extrema
                return Err(format!(
                    "{}: the region is empty, nothing is covered, but mean / min / max = {} / {} / {} (NaN expected)",
                    what, got.mean, got.min, got.max
                ));
            }
            obs.evals += 1;
        }
        // ---- library: bigwig_average_over_bed (row order and names)
        let bed_text: String = rows
            .iter()
            .map(|r| if r.rest.is_empty() { format!("{}\t{}\t{}\n", r.chrom, r.s, r.e) } else { format!("{}\t{}\t{}\t{}\n", r.chrom, r.s, r.e, r.rest) })
            .collect();
        let bed_text = if case.no_final_newline { bed_text.trim_end_matches('\n').to_string() } else { bed_text };
        obs.label_if(case.no_final_newline, "bed-without-final-newline");
        let names_ok = rows.iter().all(|r| expected_name(case.name, r).is_some());
        if names_ok {
            let rd2 = open_bw(bytes.clone())?;
            let out: Vec<_> = bigwig_average_over_bed(std::io::Cursor::new(bed_text.clone().into_bytes()), rd2, lib_name(case.name))
                .collect::<Result<Vec<_>, _>>()
                .map_err(|e| format!("bigwig_average_over_bed failed: {}", e))?;
            if out.len() != rows.len() {
                return Err(format!("bigwig_average_over_bed returned {} rows for {} regions", out.len(), rows.len()));
            }
            for (r, (name, e)) in rows.iter().zip(out.iter()) {
                let w = want_for(&input.chroms[r.ci], r.s, r.e);
                let wn = expected_name(case.name, r).unwrap();
                if *name != wn || e.size != w.size || e.bases as u64 != w.bases || !close(e.sum, w.sum, w.abs) {
                    return Err(format!(
                        "bigwig_average_over_bed row for ({:?},{},{}): name {:?} size {} bases {} sum {}; expected name {:?} size {} bases {} sum {}",
                        r.chrom, r.s, r.e, name, e.size, e.bases, e.sum, wn, w.size, w.bases, w.sum
                    ));
                }
            }
            obs.evals += 1;
        }
        obs.nontrivial = straddle && (case.threads.is_empty() || rows.len() > *case.threads.iter().max().unwrap() as usize);
        // ---- tools
        if case.threads.is_empty() || !names_ok {
            return Ok(());
        }
        let (avg, vals) = match (bin("bigwigaverageoverbed"), bin("bigwigvaluesoverbed")) {
            (Some(a), Some(v)) => (a, v),
            _ => {
                obs.label("tool-binaries-missing");
                return Ok(());
            }
        };
        obs.label("tool");
        let dir = tempfile::Builder::new()
            .prefix("c17_")
            .tempdir_in(std::env::var("VERIF_TMP").unwrap_or_else(|_| std::env::temp_dir().to_string_lossy().to_string()))
            .map_err(|e| e.to_string())?;
        let p = |f: &str| dir.path().join(f).to_string_lossy().to_string();
        std::fs::write(p("in.bw"), &bytes).map_err(|e| e.to_string())?;
        std::fs::write(p("in.bed"), &bed_text).map_err(|e| e.to_string())?;
        let mut outputs: Vec<(u8, String)> = vec![];
        let mut tlist = vec![1u8];
        tlist.extend(case.threads.iter().cloned());
        for t in tlist {
            mark_progress();
            let outp = p(&format!("out_{}.bed", t));
            // for half of the outputs (a pure function of the case) the path already holds an older, longer result
            if (rows.len() + t as usize) % 2 == 1 {
                obs.label("output-path-already-exists-and-is-longer");
                std::fs::write(&outp, stale_rows(rows.len() + 40)).map_err(|e| e.to_string())?;
            }
            let mut args: Vec<String> = vec![p("in.bw"), p("in.bed"), outp.clone(), "-t".into(), t.to_string()];
            match case.name {
                NameMode::Default => {}
                NameMode::Column(n) => {
                    args.push("-n".into());
                    args.push(n.to_string());
                }
                NameMode::Interval => {
                    args.push("--namecol=interval".into());
                }
                NameMode::None => {
                    args.push("-n".into());
                    args.push("none".into());
                }
            }
            if case.min_max {
                args.push("--min-max".into());
            }
            let o = Command::new(&avg).args(&args).env("RUST_BACKTRACE", "0").output().map_err(|e| e.to_string())?;
            if !o.status.success() {
                return Err(format!(
                    "bigwigaverageoverbed -t {} failed ({:?}): {}",
                    t,
                    o.status.code(),
                    String::from_utf8_lossy(&o.stderr)
                ));
            }
            outputs.push((t, std::fs::read_to_string(&outp).map_err(|e| e.to_string())?));
            obs.evals += 1;
        }
        // -t 1 against the model
        let base = &outputs[0].1;
        let lines: Vec<&str> = base.lines().collect();
        if lines.len() != rows.len() {
            return Err(format!("bigwigaverageoverbed -t 1 wrote {} rows for {} regions", lines.len(), rows.len()));
        }
        let nstats = if case.min_max { 7 } else { 5 };
        for (r, l) in rows.iter().zip(lines.iter()) {
            let f: Vec<&str> = l.split('\t').collect();
            if f.len() < nstats + 1 {
                return Err(format!("output row {:?} has too few columns", l));
            }
            let name = f[..f.len() - nstats].join("\t");
            let st = &f[f.len() - nstats..];
            let wn = expected_name(case.name, r).unwrap();
            if name != wn {
                return Err(format!("output row {:?}: name column {:?}, expected {:?}", l, name, wn));
            }
            let w = want_for(&input.chroms[r.ci], r.s, r.e);
            let num = |s: &str| -> f64 { s.parse::<f64>().unwrap_or(f64::NAN) };
            if st[0] != w.size.to_string() || st[1] != w.bases.to_string() {
                return Err(format!("output row {:?}: size/bases, expected {} / {}", l, w.size, w.bases));
            }
            if !close3(num(st[2]), w.sum) {
                return Err(format!("output row {:?}: sum, expected {:.3}", l, w.sum));
            }
            if w.size > 0 {
                if !close3(num(st[3]), w.mean0) || !close3(num(st[4]), w.mean) {
                    return Err(format!("output row {:?}: means, expected {:.3} / {:.3}", l, w.mean0, w.mean));
                }
                if case.min_max && w.zl.is_empty() && (!close3(num(st[5]), w.min) || !close3(num(st[6]), w.max)) {
                    return Err(format!("output row {:?}: min/max, expected {:.3} / {:.3}", l, w.min, w.max));
                }
            } else if !num(st[4]).is_nan() || (case.min_max && !(num(st[5]).is_nan() && num(st[6]).is_nan())) {
                return Err(format!("output row {:?}: the region is empty, mean over covered bases and min/max must be NaN", l));
            }
        }
        for (t, text) in outputs.iter().skip(1) {
            if text != base {
                let i = text.lines().zip(base.lines()).position(|(a, b)| a != b).unwrap_or(0);
                return Err(format!(
                    "bigwigaverageoverbed -t {} differs from -t 1 (first differing row {}: {:?} vs {:?}; {} vs {} rows)",
                    t,
                    i,
                    text.lines().nth(i),
                    base.lines().nth(i),
                    text.lines().count(),
                    base.lines().count()
                ));
            }
        }
        // values over bed
        if rows.iter().map(|r| (r.e - r.s) as u64).sum::<u64>() <= 2_000_000 {
            mark_progress();
            let outp = p("vals.txt");
            let stale_vals = rows.len() % 2 == 0;
            if stale_vals {
                std::fs::write(&outp, stale_rows(rows.len() + 40)).map_err(|e| e.to_string())?;
            }
            let o = Command::new(&vals)
                .args([p("in.bw"), p("in.bed"), outp.clone()])
                .env("RUST_BACKTRACE", "0")
                .output()
                .map_err(|e| e.to_string())?;
            if !o.status.success() {
                return Err(format!("bigwigvaluesoverbed failed: {}", String::from_utf8_lossy(&o.stderr)));
            }
            let text = std::fs::read_to_string(&outp).map_err(|e| e.to_string())?;
            let lines: Vec<&str> = text.split('\n').collect();
            if lines.len() < rows.len() {
                return Err(format!("bigwigvaluesoverbed wrote {} rows for {} regions", lines.len(), rows.len()));
            }
            if stale_vals && lines[rows.len()..].iter().any(|l| l.contains("zzStale")) {
                return Err(format!("bigwigvaluesoverbed left {} lines of an older result behind its {} rows", lines.len() - rows.len(), rows.len()));
            }
            for (r, l) in rows.iter().zip(lines.iter()) {
                let want = input.chroms[r.ci].per_base(r.s, r.e);
                let got: Vec<&str> = if l.is_empty() { vec![] } else { l.split('\t').collect() };
                if got.len() != want.len() {
                    return Err(format!(
                        "bigwigvaluesoverbed row for ({:?},{},{}) has {} values, region has {} bases",
                        r.chrom,
                        r.s,
                        r.e,
                        got.len(),
                        want.len()
                    ));
                }
                for (i, (g, w)) in got.iter().zip(want.iter()).enumerate() {
                    let gv: f32 = g.parse().unwrap_or(f32::NAN);
                    let ok = match w {
                        Some(w) => gv.to_bits() == w.to_bits() || gv == *w,
                        None => gv == 0.0 || gv.is_nan(),
                    };
                    if !ok {
                        return Err(format!(
                            "bigwigvaluesoverbed ({:?},{},{}) base {}: {} but the file holds {:?}",
                            r.chrom, r.s, r.e, i, g, w
                        ));
                    }
                }
            }
            obs.evals += 1;
        }
        Ok(())
    }
}
