//! C06 — whole-file summary statistics equal the statistics of the written data
use super::common::*;
use super::written::*;
use super::{c01, c02};
use crate::drive;
use crate::gen;
use crate::indep::decode;
use crate::model::*;
use crate::runner::{Obs, Prop, Tier};
use crate::sink::SharedSink;
use proptest::prelude::*;
use serde::{Deserialize, Serialize};

#[derive(Serialize, Deserialize, Clone, Debug)]
pub enum Case {
    Bw(c01::Case),
    Bb(c02::Case),
}

pub struct C06;

fn has_partial_overlap(c: &crate::model::BbChrom) -> bool {
    // a.start < b.start < a.end < b.end for some earlier a
    let mut best: Option<(u32, u32)> = None; // earlier entry with the largest end
    for b in &c.entries {
        if let Some((as_, ae)) = best {
            if as_ < b.s && b.s < ae && ae < b.e {
                return true;
            }
        }
        // keep the entry most likely to produce the shape: largest end among strictly smaller starts
        match best {
            Some((_, ae)) if ae >= b.e => {}
            _ => best = Some((b.s, b.e)),
        }
    }
    false
}

impl Prop for C06 {
    type Case = Case;
    const ID: &'static str = "C06";
    fn rule() -> String {
        "C01/C02 inputs (bigBed without extra columns, biased to overlap) in both pass modes; get_summary()/item_count() through the \
         real readers compared with model statistics (bigWig: length-weighted values, tolerance 1e-9 of the sum of magnitudes; bigBed: depth function, exact); \
         bigWig item count = number of data blocks counted by the independent decoder. \
         non-trivial = >= 2 chromosomes AND (bigWig | a pair with a.start < b.start < a.end < b.end)"
            .into()
    }
    fn technique() -> String {
        "property-based testing against a reference model (independent sweep over +1/-1 events for depth)".into()
    }
    fn assumptions() -> Vec<String> {
        vec![
            "zero-length items may or may not take part in min/max (DESIGN 1.4 rule 2)".into(),
            "bigWig floating-point sums compared with relative tolerance 1e-9 of Σ|terms|".into(),
        ]
    }
    fn cases(tier: Tier) -> u64 {
        tier.pick(20_000, 100_000)
    }
    fn fixed_cases(_tier: Tier) -> Vec<Case> {
        // scale: coverage depth beyond 2^12 (depth^2 beyond f32's exact integers): 5000 identical entries,
        // 4500 nested ones, and a plain neighbour chromosome
        let mut deep = vec![];
        for _ in 0..5000u32 {
            deep.push(BbEntry { s: 100, e: 140, rest: String::new() });
        }
        let mut nested = vec![];
        for i in 0..4500u32 {
            nested.push(BbEntry { s: i, e: 20_000 - i, rest: String::new() });
        }
        let mk = |multipass: bool| {
            let mut o = Opts::default();
            o.multipass = multipass;
            o.items_per_slot = 512;
            o.zoom = ZoomSpec::Manual(vec![]);
            Case::Bb(c02::Case {
                input: BbInput {
                    chroms: vec![
                        BbChrom { name: "chrDeep".into(), size: 1000, entries: deep.clone() },
                        BbChrom { name: "chrNested".into(), size: 30_000, entries: nested.clone() },
                        BbChrom { name: "chrPlain".into(), size: 500, entries: vec![BbEntry { s: 5, e: 50, rest: String::new() }, BbEntry { s: 40, e: 90, rest: String::new() }] },
                    ],
                    unused: vec![],
                    autosql: None,
                },
                opts: o,
                k2_nudged: 0,
                delay: None,
            })
        };
        vec![mk(false), mk(true)]
    }
    fn strategy(tier: Tier) -> BoxedStrategy<Case> {
        prop_oneof![
            2 => gen::bw_case(tier, false).prop_map(c01::make_case).prop_map(Case::Bw),
            3 => gen::bb_case(tier, false, false).prop_map(c02::make_case).prop_map(Case::Bb),
        ]
        .boxed()
    }
    fn check(case: &Case, obs: &mut Obs) -> Result<(), String> {
        match case {
            Case::Bw(c) => {
                obs.label("bigwig");
                gen::label_opts(&c.opts, obs);
                label_shape_bw(&c.input, &c.opts, obs);
                let sink = SharedSink::new();
                if let Err(e) = drive::write_bw(&c.input, &c.opts, sink.clone()) {
                    obs.label("writer-refused");
                    obs.notes.push(format!("writer refused generated input: {}", e));
                    return Ok(());
                }
                obs.nontrivial = c.input.chroms.len() >= 2;
                let bytes = sink.bytes();
                let mut r = open_bw(bytes.clone())?;
                let s = r.get_summary().map_err(|e| format!("get_summary failed: {}", e))?;
                let st = c.input.total_stats();
                check_total_summary(
                    (s.bases_covered, s.min_val, s.max_val, s.sum, s.sum_squares),
                    &st,
                    &bw_zero_len_vals(&c.input),
                    false,
                )?;
                let d = decode::decode(&bytes).map_err(|e| format!("independent decoder rejects the file: {}", e))?;
                if s.total_items != d.main_index.leaves.len() as u64 {
                    return Err(format!(
                        "bigWig item count = {} but the file holds {} data blocks",
                        s.total_items,
                        d.main_index.leaves.len()
                    ));
                }
                Ok(())
            }
            Case::Bb(c) => {
                obs.label("bigbed");
                gen::label_opts(&c.opts, obs);
                c02::label_shape_bb(&c.input, &c.opts, obs);
                let partial = c.input.chroms.iter().any(has_partial_overlap);
                obs.label_if(partial, "partial-overlap-pair");
                let sink = SharedSink::new();
                if let Err(e) = drive::write_bb(&c.input, &c.opts, sink.clone()) {
                    obs.label("writer-refused");
                    obs.notes.push(format!("writer refused generated input: {}", e));
                    return Ok(());
                }
                obs.nontrivial = c.input.chroms.len() >= 2 && partial;
                let mut r = open_bb(sink.bytes())?;
                let s = r.get_summary().map_err(|e| format!("get_summary failed: {}", e))?;
                let st = c.input.total_stats();
                check_total_summary(
                    (s.bases_covered, s.min_val, s.max_val, s.sum, s.sum_squares),
                    &st,
                    &bb_zero_len_slack(&c.input, &st),
                    true,
                )?;
                let n = r.item_count().map_err(|e| format!("item_count failed: {}", e))?;
                if n != c.input.n_items() as u64 || s.total_items != n {
                    return Err(format!(
                        "item count: item_count() = {}, summary.total_items = {}, input had {} entries",
                        n,
                        s.total_items,
                        c.input.n_items()
                    ));
                }
                Ok(())
            }
        }
    }
}
