//! C09 — every written file is a well-formed BBI file for an independent decoder
use super::common::*;
use super::written::*;
use super::{c01, c02};
use crate::drive;
use crate::gen;
use crate::indep::decode;
use crate::model::*;
use crate::runner::{Obs, Prop, Tier};
use crate::sink::SharedSink;
use proptest::prelude::*;
use serde::{Deserialize, Serialize};

#[derive(Serialize, Deserialize, Clone, Debug)]
pub enum Case {
    Bw(c01::Case),
    Bb(c02::Case),
}

pub struct C09;

impl Prop for C09 {
    type Case = Case;
    const ID: &'static str = "C09";
    fn rule() -> String {
        "the C01 and C02 case streams (all option combinations) written with the real writers; every file is decoded and validated by \
         indep::decode (std + miniz_oxide, no bigtools code) and its content compared with the model; \
         non-trivial = compressed AND >= 2 chromosomes AND >= 1 zoom level AND index with >= 2 node levels, all at once"
            .into()
    }
    fn technique() -> String {
        "property-based differential against an independent decoder/validator (validated on UCSC-made fixtures) + model oracle".into()
    }
    fn assumptions() -> Vec<String> {
        vec![
            "the decoder's rules are those of the published format as exercised by two UCSC-made fixtures (accepted by it)".into(),
            "chromosome key order is only asserted for sorted-chromosome input".into(),
            "R-tree itemCount may be the number of leaf items or of records (both occur in UCSC files)".into(),
        ]
    }
    fn cases(tier: Tier) -> u64 {
        tier.pick(12_000, 50_000)
    }
    fn strategy(tier: Tier) -> BoxedStrategy<Case> {
        prop_oneof![
            gen::bw_case(tier, true).prop_map(c01::make_case).prop_map(Case::Bw),
            gen::bb_case(tier, true, true).prop_map(c02::make_case).prop_map(Case::Bb),
        ]
        .boxed()
    }
    fn fixed_cases(_tier: Tier) -> Vec<Case> {
        // more chromosomes than the chromosome tree's default block size (256), both file types
        let bw = c01::big_case(600, 1, 300);
        let mut bb_chroms = vec![];
        for ci in 0..300u32 {
            bb_chroms.push(BbChrom {
                name: format!("scaffold{:04}", ci),
                size: 1000 + ci,
                entries: vec![
                    BbEntry { s: 5, e: 300 + ci, rest: format!("a{}", ci) },
                    BbEntry { s: 7, e: 20, rest: "b".into() },
                ],
            });
        }
        let mut o = Opts::default();
        o.items_per_slot = 8;
        o.threads = 2;
        vec![
            // items_per_slot at its maximum with one item more than a full section
            Case::Bw(c01::big_case(65_537, 65535, 1)),
            Case::Bw(c01::repetitive_case(6000, 8192)),
            Case::Bb(c02::big_case(65_537, 65535)),
            Case::Bw(bw),
            Case::Bb(c02::Case { input: BbInput { chroms: bb_chroms, unused: vec![], autosql: None }, opts: o, k2_nudged: 0, delay: None }),
        ]
    }
    fn check(case: &Case, obs: &mut Obs) -> Result<(), String> {
        match case {
            Case::Bw(c) => {
                obs.label("bigwig");
                gen::label_opts(&c.opts, obs);
                let (_ms, _depth) = label_shape_bw(&c.input, &c.opts, obs);
                let sink = SharedSink::new();
                if let Err(e) = drive::write_bw(&c.input, &c.opts, sink.clone()) {
                    obs.label("writer-refused");
                    obs.notes.push(format!("writer refused generated input: {}", e));
                    return Ok(());
                }
                let bytes = sink.bytes();
                let d = decode::decode(&bytes).map_err(|e| format!("independent decoder rejects the file: {}", e))?;
                if !d.is_bigwig {
                    return Err("decoded as bigBed".into());
                }
                finish(&d, &c.opts, obs);
                if (d.uncompress_buf_size > 0) != c.opts.compress {
                    return Err(format!(
                        "uncompressBufSize = {} but compress = {}",
                        d.uncompress_buf_size, c.opts.compress
                    ));
                }
                check_decoded_chroms(&d, &bw_expected_chroms(&c.input), c.opts.sorted_chroms)?;
                check_decoded_bw_content(&d, &c.input)?;
                let st = c.input.total_stats();
                check_total_summary(
                    d.summary.ok_or("no total summary")?,
                    &st,
                    &bw_zero_len_vals(&c.input),
                    false,
                )?;
                check_zoom_directory(&d, &c.opts)?;
                check_all_zoom_levels(&d, &bw_signals(&c.input))?; obs.evals += d.zooms.len() as u64;
                Ok(())
            }
            Case::Bb(c) => {
                obs.label("bigbed");
                gen::label_opts(&c.opts, obs);
                c02::label_shape_bb(&c.input, &c.opts, obs);
                let sink = SharedSink::new();
                if let Err(e) = drive::write_bb(&c.input, &c.opts, sink.clone()) {
                    obs.label("writer-refused");
                    obs.notes.push(format!("writer refused generated input: {}", e));
                    return Ok(());
                }
                let bytes = sink.bytes();
                let d = decode::decode(&bytes).map_err(|e| format!("independent decoder rejects the file: {}", e))?;
                if d.is_bigwig {
                    return Err("decoded as bigWig".into());
                }
                finish(&d, &c.opts, obs);
                if (d.uncompress_buf_size > 0) != c.opts.compress {
                    return Err(format!(
                        "uncompressBufSize = {} but compress = {}",
                        d.uncompress_buf_size, c.opts.compress
                    ));
                }
                check_decoded_chroms(&d, &bb_expected_chroms(&c.input), c.opts.sorted_chroms)?;
                check_decoded_bb_content(&d, &c.input)?;
                let want_sql = c
                    .input
                    .autosql
                    .clone()
                    .unwrap_or_else(|| bigtools::bed::autosql::BED3.to_string());
                if d.autosql.as_deref() != Some(want_sql.as_bytes()) {
                    return Err("decoded autoSql text differs from the supplied text".into());
                }
                let st = c.input.total_stats();
                check_total_summary(d.summary.ok_or("no total summary")?, &st, &bb_zero_len_slack(&c.input, &st), true)?;
                check_zoom_directory(&d, &c.opts)?;
                check_all_zoom_levels(&d, &bb_signals(&c.input))?; obs.evals += d.zooms.len() as u64;
                Ok(())
            }
        }
    }
}

fn finish(d: &decode::Decoded, o: &Opts, obs: &mut Obs) {
    obs.label(&format!("decoded-zoom-levels={}", d.zooms.len().min(5)));
    obs.label(&format!("decoded-index-node-levels={}", d.main_index.levels.min(5)));
    obs.label_if(d.zooms.iter().any(|z| z.index.levels >= 2), "zoom-index-multi-level");
    obs.nontrivial = o.compress && d.chroms.len() >= 2 && !d.zooms.is_empty() && d.main_index.levels >= 2;
}

/// write the files of `n` generated cases into `dir` (for the Python decoder cross-check)
pub fn emit_files(seed: u64, n: usize, dir: &str) -> usize {
    use proptest::strategy::{Strategy, ValueTree};
    use proptest::test_runner::{Config, RngAlgorithm, TestRng, TestRunner};
    let mut key = [7u8; 32];
    key[..8].copy_from_slice(&seed.to_le_bytes());
    let mut runner = TestRunner::new_with_rng(Config::default(), TestRng::from_seed(RngAlgorithm::ChaCha, &key));
    let strat = <C09 as Prop>::strategy(Tier::Quick);
    let _ = std::fs::create_dir_all(dir);
    let mut written = 0;
    for i in 0..n {
        let case = match strat.new_tree(&mut runner) {
            Ok(t) => t.current(),
            Err(_) => continue,
        };
        let sink = SharedSink::new();
        let ok = match &case {
            Case::Bw(c) => drive::write_bw(&c.input, &c.opts, sink.clone()).is_ok(),
            Case::Bb(c) => drive::write_bb(&c.input, &c.opts, sink.clone()).is_ok(),
        };
        if ok {
            let _ = std::fs::write(format!("{}/f{:05}.bbi", dir, i), sink.bytes());
            written += 1;
        }
    }
    written
}
