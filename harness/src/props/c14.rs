//! C14 — no partial file passes for a complete one; no I/O failure is reported as success
use super::c13;
use super::common::*;
use super::written::*;
use super::{c01, c02, c03, c04};
use crate::drive;
use crate::gen;
use crate::indep::decode;
use crate::model::*;
use crate::runner::{Obs, Prop, Tier};
use crate::sink::{apply_prefix, apply_prefix_over_at, Op, OpKind, SharedSink};
use bigtools::ZoomRecord;
use proptest::prelude::*;
use serde::{Deserialize, Serialize};
use std::panic::{catch_unwind, AssertUnwindSafe};

#[derive(Serialize, Deserialize, Clone, Debug)]
pub enum Case {
    Bw(c01::Case),
    Bb(c02::Case),
    /// a C13-style refused input: what is left in the destination must not pass for a file
    Refused(c13::Case),
    /// one crash point / fault of a case, for replay: (inner case, prefix length or fault index, kind)
    Point { inner: Box<Case>, k: usize, what: PointKind },
    /// the real converter writing to /dev/full (every write fails with ENOSPC): it must not exit 0
    DevFull { bw: bool, threads: u8, parallel: bool, single_pass: bool, inmemory: bool, uncompressed: bool },
}

#[derive(Serialize, Deserialize, Clone, Copy, Debug, PartialEq)]
pub enum PointKind {
    Prefix,
    /// torn final write: only the first `t` bytes of operation k reach the destination
    Torn(usize),
    FailWrite { sticky: bool },
    FailSeek { sticky: bool },
    FailFlush { sticky: bool },
}

pub struct C14;

#[derive(Debug, PartialEq)]
enum Outcome {
    Rejected,
    Complete,
    Wrong(String),
}

fn zrec_from(id: u32, z: &ZoomRecord) -> ZRec {
    ZRec {
        chrom: id,
        start: z.start,
        end: z.end,
        valid: z.summary.bases_covered,
        min: z.summary.min_val,
        max: z.summary.max_val,
        sum: z.summary.sum,
        sumsq: z.summary.sum_squares,
    }
}

/// run every read a user could make against `bytes`; any failure or panic = Rejected
fn serves_bw(bytes: Vec<u8>, input: &BwInput, o: &Opts) -> Outcome {
    let r = catch_unwind(AssertUnwindSafe(|| -> Result<Option<String>, ()> {
        let mut r = match open_bw(bytes) {
            Ok(r) => r,
            Err(_) => return Err(()),
        };
        let mut wrong: Option<String> = None;
        let expected = bw_expected_chroms(input);
        let table: Vec<(String, u32)> = r.chroms().iter().map(|c| (c.name.clone(), c.length)).collect();
        if table != expected {
            wrong = Some(format!("chromosome table {:?} instead of {:?}", table, expected));
        }
        for (name, _len) in &table {
            let c = match input.chroms.iter().find(|c| &c.name == name) {
                Some(c) => c,
                None => continue,
            };
            let got = read_bw_full(&mut r, c).map_err(|_| ())?;
            let want: Vec<BwVal> = c.vals.iter().filter(|v| !(v.s == v.e && (v.s == 0 || v.s == c.size))).cloned().collect();
            let got: Vec<BwVal> = got.into_iter().filter(|v| !(v.s == v.e && (v.s == 0 || v.s == c.size))).collect();
            if !same_vals(&got, &want) && wrong.is_none() {
                wrong = Some(format!("records of {:?}: {}", name, first_diff_vals(&got, &want)));
            }
            // a few boundary queries
            for v in c.vals.iter().step_by((c.vals.len() / 4).max(1)) {
                for (s, e) in [(v.s.saturating_sub(1), v.e), (v.s, (v.e + 1).min(c.size)), (v.s, v.e)] {
                    if s > e {
                        continue;
                    }
                    let it = r.get_interval(&c.name, s, e).map_err(|_| ())?;
                    let got: Vec<BwVal> = it
                        .map(|x| x.map(|x| BwVal { s: x.start, e: x.end, v: x.value }))
                        .collect::<Result<_, _>>()
                        .map_err(|_| ())?;
                    if let Err(m) = c03::judge_interval(c, s, e, &got, "prefix") {
                        if wrong.is_none() {
                            wrong = Some(m);
                        }
                    }
                }
            }
        }
        // every advertised zoom level
        let levels: Vec<u32> = r.info().zoom_headers.iter().map(|z| z.reduction_level).collect();
        if levels.windows(2).any(|w| w[0] >= w[1]) && wrong.is_none() {
            wrong = Some(format!("zoom levels {:?}", levels));
        }
        if let ZoomSpec::Manual(req) = &o.zoom {
            if levels.iter().any(|l| !req.contains(l)) && wrong.is_none() {
                wrong = Some(format!("zoom levels {:?} not among requested {:?}", levels, req));
            }
        }
        let signals = bw_signals(input);
        for lv in levels {
            let mut recs = vec![];
            for (id, c) in input.chroms.iter().enumerate() {
                if !table.iter().any(|t| t.0 == c.name) {
                    continue;
                }
                let it = r.get_zoom_interval(&c.name, 0, u32::MAX, lv).map_err(|_| ())?;
                for z in it {
                    let z = z.map_err(|_| ())?;
                    recs.push(zrec_from(id as u32, &z));
                }
            }
            if let Err(m) = zoom_level_check(lv, &recs, &signals) {
                if wrong.is_none() {
                    wrong = Some(format!("zoom level {}: {}", lv, m));
                }
            }
        }
        Ok(wrong)
    }));
    match r {
        Err(_) | Ok(Err(())) => Outcome::Rejected,
        Ok(Ok(None)) => Outcome::Complete,
        Ok(Ok(Some(m))) => Outcome::Wrong(m),
    }
}

fn serves_bb(bytes: Vec<u8>, input: &BbInput, o: &Opts) -> Outcome {
    let r = catch_unwind(AssertUnwindSafe(|| -> Result<Option<String>, ()> {
        let mut r = match open_bb(bytes) {
            Ok(r) => r,
            Err(_) => return Err(()),
        };
        let mut wrong: Option<String> = None;
        let expected = bb_expected_chroms(input);
        let table: Vec<(String, u32)> = r.chroms().iter().map(|c| (c.name.clone(), c.length)).collect();
        if table != expected {
            wrong = Some(format!("chromosome table {:?} instead of {:?}", table, expected));
        }
        for (name, _len) in &table {
            let c = match input.chroms.iter().find(|c| &c.name == name) {
                Some(c) => c,
                None => continue,
            };
            let got = read_bb_range(&mut r, &c.name, 0, c.size).map_err(|_| ())?;
            if got != c.entries && wrong.is_none() {
                wrong = Some(format!("entries of {:?}: {}", name, first_diff_entries(&got, &c.entries)));
            }
            for v in c.entries.iter().step_by((c.entries.len() / 4).max(1)) {
                let e = v.e.min(c.size);
                for (s, e) in [(v.s.saturating_sub(1), e), (v.s, (e + 1).min(c.size)), (v.s, e)] {
                    if s >= e {
                        continue;
                    }
                    let got = read_bb_range(&mut r, &c.name, s, e).map_err(|_| ())?;
                    if let Err(m) = c04::judge_bb(c, s, e, &got, "prefix") {
                        if wrong.is_none() {
                            wrong = Some(m);
                        }
                    }
                }
            }
        }
        let levels: Vec<u32> = r.info().zoom_headers.iter().map(|z| z.reduction_level).collect();
        if levels.windows(2).any(|w| w[0] >= w[1]) && wrong.is_none() {
            wrong = Some(format!("zoom levels {:?}", levels));
        }
        if let ZoomSpec::Manual(req) = &o.zoom {
            if levels.iter().any(|l| !req.contains(l)) && wrong.is_none() {
                wrong = Some(format!("zoom levels {:?} not among requested {:?}", levels, req));
            }
        }
        let signals = bb_signals(input);
        for lv in levels {
            let mut recs = vec![];
            for (id, c) in input.chroms.iter().enumerate() {
                if !table.iter().any(|t| t.0 == c.name) {
                    continue;
                }
                let it = r.get_zoom_interval(&c.name, 0, u32::MAX, lv).map_err(|_| ())?;
                for z in it {
                    let z = z.map_err(|_| ())?;
                    recs.push(zrec_from(id as u32, &z));
                }
            }
            if let Err(m) = zoom_level_check(lv, &recs, &signals) {
                if wrong.is_none() {
                    wrong = Some(format!("zoom level {}: {}", lv, m));
                }
            }
        }
        Ok(wrong)
    }));
    match r {
        Err(_) | Ok(Err(())) => Outcome::Rejected,
        Ok(Ok(None)) => Outcome::Complete,
        Ok(Ok(Some(m))) => Outcome::Wrong(m),
    }
}

fn write_inner(inner: &Case, sink: SharedSink) -> Result<(), String> {
    match inner {
        Case::Bw(c) => drive::write_bw(&c.input, &c.opts, sink),
        Case::Bb(c) => drive::write_bb(&c.input, &c.opts, sink),
        _ => Err("not a plain case".into()),
    }
}

fn serves(inner: &Case, bytes: Vec<u8>) -> Outcome {
    match inner {
        Case::Bw(c) => serves_bw(bytes, &c.input, &c.opts),
        Case::Bb(c) => serves_bb(bytes, &c.input, &c.opts),
        _ => Outcome::Rejected,
    }
}

/// the same layout with other content: what the destination held before the rewrite
fn older_version(case: &Case) -> Option<Case> {
    match case {
        Case::Bw(c) => {
            let mut c = c.clone();
            for ch in c.input.chroms.iter_mut() {
                for v in ch.vals.iter_mut() {
                    v.v = if v.v == 7.25 { -7.25 } else { 7.25 };
                }
            }
            Some(Case::Bw(c))
        }
        Case::Bb(c) => {
            let mut c = c.clone();
            for ch in c.input.chroms.iter_mut() {
                for (i, e) in ch.entries.iter_mut().enumerate() {
                    e.rest = format!("old{}", i);
                }
            }
            c.input.autosql = None;
            Some(Case::Bb(c))
        }
        _ => None,
    }
}

fn judge_prefix(inner: &Case, log: &[Op], k: usize, torn: Option<usize>) -> Result<bool, String> {
    crate::runner::mark_progress();
    let bytes = apply_prefix(log, k, torn);
    match serves(inner, bytes) {
        Outcome::Rejected => Ok(false),
        Outcome::Complete => Ok(true),
        Outcome::Wrong(m) => Err(format!(
            "a destination cut after {} of {} operations{} opens and answers every query without error but is not the complete file: {}",
            k,
            log.len(),
            torn.map(|t| format!(" (+{} bytes of the next write)", t)).unwrap_or_default(),
            m
        )),
    }
}

fn judge_fault(inner: &Case, kind: OpKind, k: usize, sticky: bool) -> Result<bool, String> {
    crate::runner::mark_progress();
    let sink = SharedSink::failing(kind, k, sticky);
    if std::env::var("VERIF_TRACE").is_ok() {
        eprintln!("fault {:?} #{} sticky={}", kind, k, sticky);
    }
    let r = catch_unwind(AssertUnwindSafe(|| write_inner(inner, sink.clone())));
    let _ = crate::runner::take_last_panic();
    if !sink.failed() {
        return Ok(false); // the run issued fewer operations of this kind: nothing was injected
    }
    match r {
        Ok(Ok(())) => Err(format!(
            "the destination failed its {}-th {:?} operation{} and the write call still returned Ok",
            k,
            kind,
            if sticky { " (and every later operation)" } else { "" }
        )),
        _ => Ok(true),
    }
}

fn small_opts() -> BoxedStrategy<Opts> {
    gen::opts(true)
        .prop_map(|mut o| {
            // keep a case cheap: it is executed once per crash point / fault
            if o.threads > 4 {
                o.threads = 4;
            }
            o
        })
        .boxed()
}

impl Prop for C14 {
    type Case = Case;
    const ID: &'static str = "C14";
    const LEVEL: &'static str = "fault_enumeration";
    const TERMINATION: bool = true;
    fn rule() -> String {
        "for each generated small C01/C02 case the operations that reach the destination (below the BufWriter) are recorded; ENUMERATED per case: every prefix k in 0..=K of that log \
         (thorough: plus torn final writes at 64-byte cuts) is handed to the readers — it must be rejected (open or some query fails/panics) or serve the complete model (chromosome table, \
         every chromosome's records, every advertised zoom level, boundary queries); and for every operation kind and every index k the k-th write / seek / flush fails once (and, separately, \
         fails from then on): the call must not return Ok and must return within the deadline. Refused inputs (C13 classes): whatever is left must be rejected or self-consistent. Small cases are also written a second time over a destination that already holds an older complete file of the same layout (cursor at the start, in the middle or at the end of it): every cut must be rejected or serve the old file completely or the new one completely. \
         evaluations = prefixes + faults; FIXED: the real bedgraphtobigwig / bedtobigbed (threads 1/4, --parallel yes/no, one/two pass, both buffering modes) writing to /dev/full must terminate and must not exit 0. \
         non-trivial = prefixes lying after the first data write and before the header rewrite, and faults hit by a spawned task's write (counted per point; distinct by construction)"
            .into()
    }
    fn technique() -> String {
        "exhaustive crash-point and single-fault enumeration over the recorded write/seek/flush log of generated cases".into()
    }
    fn assumptions() -> Vec<String> {
        vec![
            "crash model: a prefix of the operation sequence reaches the destination (optionally a torn last write); no reordering".into(),
            "total summary and data count are not required of a prefix (not in the statement's list)".into(),
            "a panic counts as 'not success' for injected faults".into(),
        ]
    }
    fn case_deadline_s() -> u64 {
        60
    }
    fn cases(tier: Tier) -> u64 {
        tier.pick(600, 4000)
    }
    fn fixed_cases(_tier: Tier) -> Vec<Case> {
        // files whose index trees, chromosome tree and zoom indexes each exceed the 8 KiB buffer in front of
        // the destination (they reach it in writes of their own)
        let mut big_bw = c01::big_case(700, 2, 1);
        big_bw.opts.zoom = ZoomSpec::Manual(vec![4]);
        big_bw.opts.threads = 2;
        let mut many_chroms = c01::big_case(900, 4, 450);
        many_chroms.opts.zoom = ZoomSpec::Manual(vec![]);
        many_chroms.opts.multipass = true;
        let mut big_bb = c02::big_case(700, 2);
        big_bb.opts.zoom = ZoomSpec::Manual(vec![16]);
        big_bb.opts.compress = false;
        let mut v = vec![Case::Bw(big_bw), Case::Bw(many_chroms), Case::Bb(big_bb)];
        if !std::path::Path::new("/dev/full").exists() {
            return v;
        }
        for bw in [true, false] {
            for threads in [1u8, 4] {
                for parallel in [false, true] {
                    for single_pass in [false, true] {
                        for inmemory in [false, true] {
                            v.push(Case::DevFull { bw, threads, parallel, single_pass, inmemory, uncompressed: (threads == 4) ^ inmemory });
                        }
                    }
                }
            }
        }
        v
    }
    fn strategy(_tier: Tier) -> BoxedStrategy<Case> {
        let bw = small_opts()
            .prop_flat_map(|o| {
                let sorted = o.sorted_chroms;
                (gen::bw_input(4, 60, sorted), Just(o))
            })
            .prop_map(|(input, mut o)| {
                let bases: u64 = input.chroms.iter().map(|c| c.vals.iter().map(|v| (v.e - v.s) as u64).sum::<u64>()).sum();
                gen::tame_zooms(bases, input.n_items() as u64, &mut o, 150);
                Case::Bw(c01::make_case((input, o)))
            });
        let bb = small_opts()
            .prop_flat_map(|o| {
                let sorted = o.sorted_chroms;
                (gen::bb_input(4, 60, sorted, true), Just(o))
            })
            .prop_map(|(mut input, mut o)| {
                if input.autosql.as_ref().map(|a| a.len() > 200).unwrap_or(false) {
                    input.autosql = None;
                }
                let bases: u64 = input.chroms.iter().map(|c| c.entries.iter().map(|v| (v.e - v.s) as u64).sum::<u64>()).sum();
                gen::tame_zooms(bases, input.n_items() as u64, &mut o, 150);
                Case::Bb(c02::make_case((input, o)))
            });
        let refused = <c13::C13 as Prop>::strategy(Tier::Quick)
            .prop_filter_map("needs an injected violation", |c| if c.inject != c13::Inject::None { Some(Case::Refused(c)) } else { None });
        prop_oneof![3 => bw, 3 => bb, 1 => refused].boxed()
    }
    fn check(case: &Case, obs: &mut Obs) -> Result<(), String> {
        match case {
            Case::Point { inner, k, what } => {
                // replay of one point
                match what {
                    PointKind::Prefix | PointKind::Torn(_) => {
                        let sink = SharedSink::recording();
                        write_inner(inner, sink.clone())?;
                        let log = sink.log();
                        let torn = if let PointKind::Torn(t) = what { Some(*t) } else { None };
                        judge_prefix(inner, &log, (*k).min(log.len()), torn).map(|_| ())
                    }
                    // which operation is the k-th one can depend on task timing: try a few times
                    PointKind::FailWrite { sticky } => (0..8).try_for_each(|_| judge_fault(inner, OpKind::Write, *k, *sticky).map(|_| ())),
                    PointKind::FailSeek { sticky } => (0..8).try_for_each(|_| judge_fault(inner, OpKind::Seek, *k, *sticky).map(|_| ())),
                    PointKind::FailFlush { sticky } => (0..8).try_for_each(|_| judge_fault(inner, OpKind::Flush, *k, *sticky).map(|_| ())),
                }
            }
            Case::DevFull { bw, threads, parallel, single_pass, inmemory, uncompressed } => {
                use super::cli::{bindir, run_tool, tmpdir};
                obs.label("cli-dev-full");
                if bindir().is_none() {
                    obs.label("tool-binaries-missing");
                    return Err("the command-line binaries are not built (VERIF_BIN): ./check builds them".into());
                }
                let dir = tmpdir("c14_")?;
                let p = |n: &str| dir.path().join(n).to_string_lossy().to_string();
                let mut text = String::new();
                let mut sizes = String::new();
                for c in 0..4 {
                    sizes.push_str(&format!("chr{}\t100000\n", c));
                    for i in 0..300u32 {
                        if *bw {
                            text.push_str(&format!("chr{}\t{}\t{}\t{}\n", c, i * 20, i * 20 + 13, (i % 17) as f32 / 4.0));
                        } else {
                            text.push_str(&format!("chr{}\t{}\t{}\tname{}\t{}\n", c, i * 20, i * 20 + 33, i, i % 9));
                        }
                    }
                }
                std::fs::write(p("in.txt"), &text).map_err(|e| e.to_string())?;
                std::fs::write(p("sizes"), &sizes).map_err(|e| e.to_string())?;
                let tool = if *bw { "bedgraphtobigwig" } else { "bedtobigbed" };
                let mut args: Vec<String> = vec![p("in.txt"), p("sizes"), "/dev/full".into(), "-t".into(), threads.to_string()];
                args.push(format!("--parallel={}", if *parallel { "yes" } else { "no" }));
                if *single_pass {
                    args.push("--single-pass".into());
                }
                if *inmemory {
                    args.push("--inmemory".into());
                }
                if *uncompressed {
                    args.push("--uncompressed".into());
                }
                let out = run_tool(tool, &args, &[], 60)?;
                obs.evals += 1;
                obs.nontrivial = *threads > 1;
                if out.timed_out {
                    return Err(format!("{} {:?} writing to /dev/full (every write fails) did not terminate within 60 s", tool, &args[3..]));
                }
                if out.code == Some(0) {
                    return Err(format!(
                        "{} {:?} writing to /dev/full (every write fails with ENOSPC) exited 0: an I/O failure reported as success",
                        tool,
                        &args[3..]
                    ));
                }
                obs.label(if out.panicked() { "cli-dev-full-panic-exit" } else { "cli-dev-full-error-exit" });
                Ok(())
            }
            Case::Refused(c) => {
                obs.label("refused-input");
                let sink = SharedSink::new();
                let r = c13::write_case(c, sink.clone());
                let _ = crate::runner::take_last_panic();
                if r.is_ok() {
                    obs.label("refused-input-was-accepted(C13 owns that)");
                    return Ok(());
                }
                let bytes = sink.bytes();
                let opened = catch_unwind(AssertUnwindSafe(|| {
                    if matches!(c.base, c13::Base::Bw(_)) {
                        open_bw(bytes.clone()).is_ok()
                    } else {
                        open_bb(bytes.clone()).is_ok()
                    }
                }))
                .unwrap_or(false);
                obs.evals += 1;
                if opened {
                    // it passes for a file: then it must at least be a self-consistent one
                    decode::decode(&bytes).map_err(|e| {
                        format!(
                            "after the input was refused ({:?}) the destination still opens as a valid file, but it is not well-formed: {}",
                            c.inject, e
                        )
                    })?;
                    obs.label("refused-input-left-openable-file");
                } else {
                    obs.label("refused-input-left-rejected-bytes");
                }
                obs.nontrivial = true;
                Ok(())
            }
            Case::Bw(_) | Case::Bb(_) => {
                let (o, is_bw) = match case {
                    Case::Bw(c) => (&c.opts, true),
                    Case::Bb(c) => (&c.opts, false),
                    _ => unreachable!(),
                };
                gen::label_opts(o, obs);
                obs.label(if is_bw { "bigwig" } else { "bigbed" });
                let sink = SharedSink::recording();
                if let Err(e) = write_inner(case, sink.clone()) {
                    obs.label("writer-refused");
                    obs.notes.push(format!("writer refused generated input: {}", e));
                    return Ok(());
                }
                let log = sink.log();
                let full = sink.bytes();
                if serves(case, full) != Outcome::Complete {
                    // the complete file itself does not satisfy the oracle: C01/C02/C07/C08 own that
                    obs.label("complete-file-not-served(other property)");
                    return Ok(());
                }
                let k_total = log.len();
                obs.label(&format!("ops={}", match k_total { 0..=9 => "<10", 10..=19 => "10-19", 20..=39 => "20-39", _ => ">=40" }));
                // zone of interest: after the first write beyond the blank header, before the final header write
                let first_data = log.iter().position(|op| matches!(op, Op::Seek(_, p) if *p > 0)).unwrap_or(1);
                let header_rewrite = log
                    .iter()
                    .rposition(|op| matches!(op, Op::Seek(std::io::SeekFrom::Start(0), _)))
                    .unwrap_or(k_total);
                let mut complete_from: Option<usize> = None;
                let pks: Vec<usize> = if k_total <= 200 {
                    (0..=k_total).collect()
                } else {
                    obs.label("prefixes-strided(>200 ops)");
                    let mut v: Vec<usize> = (0..60).collect();
                    let step = (k_total - 120) / 80 + 1;
                    v.extend((60..k_total - 60).step_by(step));
                    v.extend(k_total - 60..=k_total);
                    v
                };
                for k in pks {
                    let ok = judge_prefix(case, &log, k, None).map_err(|m| {
                        obs.reduced = Some(
                            serde_json::to_value(Case::Point { inner: Box::new(case.clone()), k, what: PointKind::Prefix }).unwrap(),
                        );
                        m
                    })?;
                    if ok && complete_from.is_none() {
                        complete_from = Some(k);
                    }
                    obs.evals += 1;
                    if k > first_data && k < header_rewrite {
                        obs.nt_extra += 1;
                    }
                }
                // the same destination written a second time: it already holds a complete, different file
                // (same layout, other values / names); every cut of the rewrite must be rejected, or serve
                // the old file completely, or the new one completely - never a mixture
                if k_total <= 120 {
                    if let Some(old) = older_version(case) {
                        let s0 = SharedSink::new();
                        if write_inner(&old, s0.clone()).is_ok() {
                            let old_bytes = s0.bytes();
                            // the handle's cursor: at the start, or left somewhere by an earlier read of the old file
                            for start in [0usize, old_bytes.len() / 2, old_bytes.len()] {
                            let s1 = SharedSink::recording_over_at(old_bytes.clone(), start as u64);
                            if write_inner(case, s1.clone()).is_ok() {
                                let log2 = s1.log();
                                for k in 0..=log2.len() {
                                    crate::runner::mark_progress();
                                    let bytes = apply_prefix_over_at(old_bytes.clone(), start, &log2, k, None);
                                    if let Outcome::Wrong(m) = serves(case, bytes.clone()) {
                                        if !matches!(serves(&old, bytes), Outcome::Complete) {
                                            return Err(format!(
                                                "a destination that held an older complete file, rewritten (cursor initially at {}) and cut after {} of {} operations, opens and answers every query but serves neither the old nor the new file completely: {}",
                                                start,
                                                k,
                                                log2.len(),
                                                m
                                            ));
                                        }
                                    }
                                    obs.evals += 1;
                                }
                                obs.label("rewrite-over-older-file");
                            }
                            }
                        }
                    }
                }
                if std::env::var("VERIF_TIER").map(|t| t == "thorough").unwrap_or(false) {
                    for (k, op) in log.iter().enumerate() {
                        if let Op::Write(b) = op {
                            let mut t = 1;
                            while t < b.len() {
                                judge_prefix(case, &log, k, Some(t)).map_err(|m| {
                                    obs.reduced = Some(
                                        serde_json::to_value(Case::Point { inner: Box::new(case.clone()), k, what: PointKind::Torn(t) }).unwrap(),
                                    );
                                    m
                                })?;
                                obs.evals += 1;
                                t += 64;
                            }
                        }
                    }
                    obs.label("torn-writes");
                }
                obs.label(&format!(
                    "complete-from={}",
                    match complete_from {
                        Some(k) if k == k_total => "last-op",
                        Some(k) if k + 4 >= k_total => "last-4-ops",
                        Some(_) => "earlier",
                        None => "never",
                    }
                ));
                // faults
                let count = |kind: fn(&Op) -> bool| log.iter().filter(|o| kind(o)).count();
                let nw = count(|o| matches!(o, Op::Write(_)));
                let ns = count(|o| matches!(o, Op::Seek(..)));
                let nf = count(|o| matches!(o, Op::Flush));
                for sticky in [false, true] {
                    for (kind, n, pk) in [
                        (OpKind::Write, nw + 2, PointKind::FailWrite { sticky }),
                        (OpKind::Seek, ns + 2, PointKind::FailSeek { sticky }),
                        (OpKind::Flush, nf + 1, PointKind::FailFlush { sticky }),
                    ] {
                        // every index when there are few operations; beyond 100 the first 40, the
                        // last 30 and an even stride in between (the label says so)
                        let ks: Vec<usize> = if n <= 100 {
                            (0..n).collect()
                        } else {
                            obs.label("faults-strided(>100 ops of one kind)");
                            let mut v: Vec<usize> = (0..40).collect();
                            let step = (n - 70) / 30 + 1;
                            v.extend((40..n - 30).step_by(step));
                            v.extend(n - 30..n);
                            v
                        };
                        for k in ks {
                            let injected = judge_fault(case, kind, k, sticky).map_err(|m| {
                                obs.reduced =
                                    Some(serde_json::to_value(Case::Point { inner: Box::new(case.clone()), k, what: pk }).unwrap());
                                m
                            })?;
                            if injected {
                                obs.evals += 1;
                                if kind == OpKind::Write && k >= 1 && k + 3 < nw {
                                    obs.nt_extra += 1;
                                }
                            }
                        }
                    }
                }
                obs.nontrivial = k_total >= 8;
                Ok(())
            }
        }
    }
}
