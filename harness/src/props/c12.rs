//! C12 — the staging buffer delivers every byte once, in order, under every interleaving
use crate::runner::{mark_progress, Obs, Prop, Tier};
use crate::sink::SharedSink;
use bigtools::utils::tempfilebuffer::{TempFileBuffer, TempFileBufferWriter};
use proptest::prelude::*;
use proptest::sample::select;
use serde::{Deserialize, Serialize};
use std::io::Write;

#[derive(Serialize, Deserialize, Clone, Copy, Debug, PartialEq)]
pub enum Program {
    /// switch after `pos` producer actions (writes; n+1 = after the drop), then await_real_file
    SwitchAwait { pos: u8 },
    /// never switch; expect_closed_write into the destination after the drop
    ClosedWrite,
    /// len() after the drop, then expect_closed_write
    LenThenClosedWrite,
}

#[derive(Serialize, Deserialize, Clone, Debug)]
pub enum Case {
    /// the whole enumerated grid for one staging mode
    Grid { inmemory: bool, max_writes: u8 },
    /// one sequential interleaving
    Seq { inmemory: bool, sizes: Vec<u32>, program: Program, prefix: u16, #[serde(default)] cap: u32 },
    /// a buffer whose destination is the writer half of another buffer (how per-chromosome zoom data reaches
    /// the per-level file): sizes = [outer before, inner before, inner after, outer after the inner finished]
    Nested { inmem_outer: bool, inmem_inner: bool, order: u8, sizes: [u32; 4] },
    /// producer and consumer on two threads with a seeded delay schedule
    Threaded {
        inmemory: bool,
        sizes: Vec<u32>,
        /// consumer: 0 = switch immediately, otherwise busy-wait this many microseconds first
        switch_after_us: u32,
        /// consumer polls readiness before awaiting
        poll: bool,
        /// no switch at all: wait for the closed buffer (len + expect_closed_write)
        closed_write: bool,
        seed: u64,
        intensity: u8,
        prefix: u16,
        /// the destination accepts at most this many bytes per write() call (0 = everything)
        #[serde(default)]
        cap: u32,
    },
}

pub struct C12;

const SIZES: [u32; 5] = [0, 1, 17, 8192, 70_000];

fn byte_at(i: u64) -> u8 {
    let mut z = i.wrapping_mul(0x9E37_79B9_7F4A_7C15);
    z ^= z >> 29;
    (z & 0xff) as u8
}

/// `write_all` never calls `write` for an empty slice; a zero-length write must reach the writer
fn put<W: Write>(w: &mut W, chunk: &[u8]) -> std::io::Result<()> {
    if chunk.is_empty() {
        w.write(chunk).map(|_| ())
    } else {
        w.write_all(chunk)
    }
}

fn stream(sizes: &[u32]) -> Vec<Vec<u8>> {
    let mut off = 0u64;
    sizes
        .iter()
        .map(|s| {
            let v: Vec<u8> = (0..*s as u64).map(|i| byte_at(off + i)).collect();
            off += *s as u64;
            v
        })
        .collect()
}

fn prefix_bytes(n: u16) -> Vec<u8> {
    (0..n).map(|i| (0xA0 ^ (i as u8)).wrapping_add(3)).collect()
}

fn expect_dest(got: &[u8], prefix: &[u8], chunks: &[Vec<u8>], what: &str) -> Result<(), String> {
    let mut want = prefix.to_vec();
    for c in chunks {
        want.extend_from_slice(c);
    }
    if got != want.as_slice() {
        let first = got.iter().zip(want.iter()).position(|(a, b)| a != b).unwrap_or(got.len().min(want.len()));
        return Err(format!(
            "{}: destination holds {} bytes, expected {} (prefix {} + written {}); first difference at offset {}",
            what,
            got.len(),
            want.len(),
            prefix.len(),
            want.len() - prefix.len(),
            first
        ));
    }
    Ok(())
}

fn run_seq(inmemory: bool, sizes: &[u32], program: Program, prefix: u16, cap: u32) -> Result<bool, String> {
    mark_progress();
    let chunks = stream(sizes);
    let pre = prefix_bytes(prefix);
    let dest = SharedSink::short_writes(cap as usize);
    {
        let mut d = dest.clone();
        d.write_all(&pre).unwrap();
    }
    let (mut buf, mut writer) = TempFileBuffer::<SharedSink>::new(inmemory);
    let what = format!(
        "sizes {:?} {:?} staging={} destination accepts {} per write()",
        sizes,
        program,
        if inmemory { "memory" } else { "tempfile" },
        if cap == 0 { "everything".to_string() } else { format!("<= {} bytes", cap) }
    );
    let n = chunks.len();
    let mut staged_switch = false;
    let ready = |b: &TempFileBuffer<SharedSink>, expect: bool, when: &str| -> Result<(), String> {
        if b.is_real_file_ready() != expect {
            return Err(format!("{}: is_real_file_ready() = {} {}", what, !expect, when));
        }
        Ok(())
    };
    match program {
        Program::SwitchAwait { pos } => {
            let pos = (pos as usize).min(n + 1);
            let mut writer = Some(writer);
            let mut switched = false;
            for step in 0..=n + 1 {
                if step == pos {
                    ready(&buf, step == n + 1, "before switch")?;
                    buf.switch(dest.clone());
                    switched = true;
                    if step >= 1 && step <= n && sizes[..step].iter().any(|s| *s > 0) && step < n {
                        staged_switch = true;
                    }
                }
                if step < n {
                    put(writer.as_mut().unwrap(), &chunks[step])
                        .map_err(|e| format!("{}: write failed: {}", what, e))?;
                    ready(&buf, false, "after a write, before the drop")?;
                } else if step == n {
                    drop(writer.take());
                    ready(&buf, true, "after the producer dropped the writer")?;
                }
            }
            assert!(switched);
            let back = buf.await_real_file();
            expect_dest(&back.bytes(), &pre, &chunks, &what)?;
        }
        Program::ClosedWrite | Program::LenThenClosedWrite => {
            for c in &chunks {
                put(&mut writer, c).map_err(|e| format!("{}: write failed: {}", what, e))?;
                ready(&buf, false, "after a write, before the drop")?;
            }
            drop(writer);
            ready(&buf, true, "after the producer dropped the writer")?;
            if program == Program::LenThenClosedWrite {
                let l = buf.len().map_err(|e| format!("{}: len() failed: {}", what, e))?;
                let total: u64 = sizes.iter().map(|s| *s as u64).sum();
                if l != total {
                    return Err(format!("{}: len() = {}, {} bytes were written", what, l, total));
                }
            }
            let mut d = dest.clone();
            buf.expect_closed_write(&mut d)
                .map_err(|e| format!("{}: expect_closed_write failed: {}", what, e))?;
            expect_dest(&dest.bytes(), &pre, &chunks, &what)?;
        }
    }
    Ok(staged_switch)
}

fn run_nested(inmem_outer: bool, inmem_inner: bool, order: u8, sizes: [u32; 4]) -> Result<(), String> {
    mark_progress();
    let chunks = stream(&sizes);
    let pre = prefix_bytes(5);
    let dest = SharedSink::new();
    {
        let mut d = dest.clone();
        d.write_all(&pre).unwrap();
    }
    let what = format!("nested buffers outer={} inner={} order={} sizes={:?}", if inmem_outer { "memory" } else { "tempfile" }, if inmem_inner { "memory" } else { "tempfile" }, order, sizes);
    let io = |e: std::io::Error| format!("{}: write failed: {}", what, e);
    let (mut buf_o, mut w_o) = TempFileBuffer::<SharedSink>::new(inmem_outer);
    let (mut buf_i, mut w_i) = TempFileBuffer::<TempFileBufferWriter<SharedSink>>::new(inmem_inner);
    put(&mut w_o, &chunks[0]).map_err(io)?;
    put(&mut w_i, &chunks[1]).map_err(io)?;
    match order % 3 {
        // the outer buffer is redirected first, then the inner one to the outer writer
        0 => {
            buf_o.switch(dest.clone());
            buf_i.switch(w_o);
            put(&mut w_i, &chunks[2]).map_err(io)?;
        }
        // the inner one first; the outer destination arrives while the inner writer is still active
        1 => {
            buf_i.switch(w_o);
            put(&mut w_i, &chunks[2]).map_err(io)?;
            buf_o.switch(dest.clone());
        }
        // the inner producer finishes before anything is redirected
        _ => {
            put(&mut w_i, &chunks[2]).map_err(io)?;
            buf_o.switch(dest.clone());
            buf_i.switch(w_o);
        }
    }
    drop(w_i);
    let mut w_o = buf_i.await_real_file();
    if order % 3 == 1 {
        // nothing yet
    }
    put(&mut w_o, &chunks[3]).map_err(io)?;
    drop(w_o);
    let back = buf_o.await_real_file();
    expect_dest(&back.bytes(), &pre, &chunks, &what)
}

#[cfg(bigtools_verif)]
fn set_schedule(seed: u64, intensity: u32) {
    bigtools::utils::verif_hooks::set_schedule(seed, intensity);
    bigtools::utils::verif_hooks::reset_counters();
}
#[cfg(not(bigtools_verif))]
fn set_schedule(_seed: u64, _intensity: u32) {}
#[cfg(bigtools_verif)]
fn counters() -> Vec<u64> {
    bigtools::utils::verif_hooks::counters()
}
#[cfg(not(bigtools_verif))]
fn counters() -> Vec<u64> {
    vec![0; 48]
}

fn run_threaded(
    inmemory: bool,
    sizes: &[u32],
    switch_after_us: u32,
    poll: bool,
    closed_write: bool,
    seed: u64,
    intensity: u8,
    prefix: u16,
    cap: u32,
) -> Result<(bool, bool), String> {
    mark_progress();
    let chunks = stream(sizes);
    let pre = prefix_bytes(prefix);
    let dest = SharedSink::short_writes(cap as usize);
    {
        let mut d = dest.clone();
        d.write_all(&pre).unwrap();
    }
    set_schedule(seed, intensity as u32);
    let (mut buf, mut writer) = TempFileBuffer::<SharedSink>::new(inmemory);
    let what = format!(
        "threaded sizes {:?} staging={} switch_after={}us closed_write={} seed={} intensity={} write-cap={}",
        sizes,
        if inmemory { "memory" } else { "tempfile" },
        switch_after_us,
        closed_write,
        seed,
        intensity,
        cap
    );
    let pchunks = chunks.clone();
    let producer = std::thread::spawn(move || -> Result<(), String> {
        for c in &pchunks {
            put(&mut writer, c).map_err(|e| format!("write failed: {}", e))?;
        }
        drop(writer);
        Ok(())
    });
    let total: u64 = sizes.iter().map(|s| *s as u64).sum();
    let got: Vec<u8>;
    if closed_write {
        let l = buf.len().map_err(|e| format!("{}: len() failed: {}", what, e))?;
        if l != total {
            return Err(format!("{}: len() = {}, {} bytes were written", what, l, total));
        }
        let mut d = dest.clone();
        buf.expect_closed_write(&mut d)
            .map_err(|e| format!("{}: expect_closed_write failed: {}", what, e))?;
        got = dest.bytes();
    } else {
        if switch_after_us > 0 {
            let t0 = std::time::Instant::now();
            while (t0.elapsed().as_micros() as u32) < switch_after_us {
                std::hint::spin_loop();
            }
        }
        buf.switch(dest.clone());
        if poll {
            let t0 = std::time::Instant::now();
            while !buf.is_real_file_ready() && t0.elapsed().as_millis() < 2 {
                std::thread::yield_now();
            }
        }
        // started (possibly) before the producer has finished: must block until then and return
        let back = buf.await_real_file();
        got = back.bytes();
    }
    producer
        .join()
        .map_err(|_| format!("{}: producer thread panicked", what))?
        .map_err(|e| format!("{}: {}", what, e))?;
    let c = counters();
    set_schedule(0, 0);
    expect_dest(&got, &pre, &chunks, &what)?;
    // hook counters: 20 = switch seen before the first write, 21/22 = switch seen with staged data
    Ok((c[20] > 0, c[21] + c[22] > 0))
}

fn histories(max_writes: u8) -> Vec<Vec<u32>> {
    let mut out: Vec<Vec<u32>> = vec![vec![]];
    let mut frontier: Vec<Vec<u32>> = vec![vec![]];
    for _ in 0..max_writes {
        let mut next = vec![];
        for h in &frontier {
            for s in SIZES {
                let mut n = h.clone();
                n.push(s);
                next.push(n);
            }
        }
        out.extend(next.iter().cloned());
        frontier = next;
    }
    out
}

/// per-write() acceptance limit of the destination: mostly unlimited, else 1 byte .. 8 KiB
fn cap() -> BoxedStrategy<u32> {
    prop_oneof![5 => Just(0u32), 1 => Just(1u32), 1 => 2u32..64, 2 => select(vec![4096u32, 8192])].boxed()
}

impl Prop for C12 {
    type Case = Case;
    const ID: &'static str = "C12";
    const TERMINATION: bool = true;
    fn rule() -> String {
        "every shared-memory access of the staging buffer is one public call, so every concurrent execution of a legal program is a sequential interleaving of calls with the blocking call after the drop. \
         ENUMERATED exhaustively: producer histories of 0..=4 writes with sizes from {0,1,17,8192,70000} then drop (781 histories) x staging {memory, temp file} x consumer programs \
         {switch at every position 0..=n+1 then await_real_file; expect_closed_write; len() then expect_closed_write}, readiness polled between all calls, destination pre-loaded with a prefix, destination accepting everything or at most 4096 bytes per write() call (generated: 1 byte .. 8 KiB); \
         oracle: destination = prefix ++ writes, once, in order; len() = bytes written; ready <=> dropped. THREADED: the same programs on two threads, await started before the drop, seeded delay schedules at the \
         cfg(bigtools_verif) delay points, must also return within the deadline. NESTED: a buffer whose destination is the writer half of another buffer (both staging modes each, three orders of redirection). GENERATED: histories with arbitrary sizes up to 200 kB, one in four with a round byte total (powers of two, 8000 .. 192000) cut at generated points. \
         non-trivial = the switch lands strictly between two writes with staged data present (sequential: by construction; threaded: hook counter); each enumerated interleaving is distinct by construction"
            .into()
    }
    fn technique() -> String {
        "exhaustive enumeration of call interleavings (sequential core) + seeded schedule perturbation on real threads + generated histories".into()
    }
    fn assumptions() -> Vec<String> {
        vec![
            "legal programs only: switch at most once; await_real_file only after a switch; expect_closed_write/len only without one".into(),
            "threaded interleavings are sampled (seeded delays at the hand-off points), not enumerated".into(),
        ]
    }
    fn exhaustive(_tier: Tier) -> bool {
        true
    }
    fn case_deadline_s() -> u64 {
        20
    }
    fn cases(tier: Tier) -> u64 {
        tier.pick(100_000, 1_000_000)
    }
    fn strategy(_tier: Tier) -> BoxedStrategy<Case> {
        let free_sizes = proptest::collection::vec(
            prop_oneof![
                3 => select(SIZES.to_vec()),
                3 => 0u32..100,
                2 => 8000u32..8400,
                1 => 0u32..200_000,
            ],
            0..=6,
        );
        // histories whose byte total is a "round" number (buffer and block sizes are powers of two or
        // decimal round numbers): the total is chosen first, then cut at generated points
        let round_total = (
            select(vec![4096u32, 8192, 16_384, 32_768, 65_536, 131_072, 8000, 10_000, 16_000, 32_000, 64_000, 100_000, 128_000, 192_000]),
            proptest::collection::vec(any::<u16>(), 0..=4),
        )
            .prop_map(|(total, cuts)| {
                let mut at: Vec<u32> = cuts.iter().map(|c| ((*c as u64 * (total as u64 + 1)) >> 16) as u32).collect();
                at.sort_unstable();
                let mut sizes = vec![];
                let mut prev = 0u32;
                for a in at {
                    sizes.push(a - prev);
                    prev = a;
                }
                sizes.push(total - prev);
                sizes
            });
        let sizes = prop_oneof![3 => free_sizes, 1 => round_total];
        let threaded = (
            any::<bool>(),
            sizes.clone(),
            prop_oneof![2 => Just(0u32), 3 => 1u32..300, 1 => 300u32..3000],
            any::<bool>(),
            prop::bool::weighted(0.2),
            any::<u64>(),
            prop_oneof![1 => Just(0u8), 3 => 10u8..=100],
            0u16..40,
            // every write() call of the producer passes the delay points: keep the number of calls small
            prop_oneof![5 => Just(0u32), 3 => select(vec![4096u32, 8192])],
        )
            .prop_map(|(inmemory, sizes, switch_after_us, poll, closed_write, seed, intensity, prefix, cap)| Case::Threaded {
                inmemory,
                sizes,
                switch_after_us,
                poll,
                closed_write,
                seed,
                intensity,
                prefix,
                cap,
            });
        let seq = (
            any::<bool>(),
            sizes,
            prop_oneof![
                4 => (0u8..=7).prop_map(|pos| Program::SwitchAwait { pos }),
                1 => Just(Program::ClosedWrite),
                1 => Just(Program::LenThenClosedWrite),
            ],
            0u16..40,
            cap(),
        )
            .prop_map(|(inmemory, sizes, program, prefix, cap)| Case::Seq { inmemory, sizes, program, prefix, cap });
        prop_oneof![3 => threaded, 1 => seq].boxed()
    }
    fn fixed_cases(tier: Tier) -> Vec<Case> {
        // split the grid in pieces so that it spreads over the workers: by staging mode and first size
        let mut v = vec![];
        for inmemory in [true, false] {
            v.push(Case::Grid { inmemory, max_writes: tier.pick(4, 4) });
        }
        // chained buffers (destination = the writer half of another buffer), every staging combination
        for inmem_outer in [true, false] {
            for inmem_inner in [true, false] {
                for order in 0..3u8 {
                    for sizes in [[10u32, 20, 30, 5], [9000, 70_000, 1, 0], [0, 8192, 8192, 17], [100_000, 0, 0, 64_000]] {
                        v.push(Case::Nested { inmem_outer, inmem_inner, order, sizes });
                    }
                }
            }
        }
        // several megabytes staged before the switch lands between two writes, and at the other positions
        for big in [5_000_000u32, 9_000_000] {
            for inmemory in [true, false] {
                for pos in 0..=3u8 {
                    v.push(Case::Seq { inmemory, sizes: vec![big, 10], program: Program::SwitchAwait { pos }, prefix: 3, cap: 0 });
                }
                v.push(Case::Seq { inmemory, sizes: vec![big, 10], program: Program::LenThenClosedWrite, prefix: 3, cap: 0 });
            }
        }
        // round byte totals, as one write and as two, under every consumer program
        for total in [4096u32, 8192, 16_384, 32_768, 65_536, 131_072, 8000, 10_000, 16_000, 32_000, 64_000, 100_000, 128_000, 192_000] {
            for inmemory in [true, false] {
                for sizes in [vec![total], vec![total / 2, total - total / 2], vec![1, total - 1]] {
                    let n = sizes.len() as u8;
                    let mut programs: Vec<Program> = (0..=n + 1).map(|pos| Program::SwitchAwait { pos }).collect();
                    programs.push(Program::ClosedWrite);
                    programs.push(Program::LenThenClosedWrite);
                    for program in programs {
                        v.push(Case::Seq { inmemory, sizes: sizes.clone(), program, prefix: 2, cap: 0 });
                    }
                }
            }
        }
        v
    }
    fn check(case: &Case, obs: &mut Obs) -> Result<(), String> {
        match case {
            Case::Grid { inmemory, max_writes } => {
                obs.label(if *inmemory { "grid-memory" } else { "grid-tempfile" });
                for h in histories(*max_writes) {
                    let n = h.len() as u8;
                    let mut programs: Vec<Program> = (0..=n + 1).map(|pos| Program::SwitchAwait { pos }).collect();
                    programs.push(Program::ClosedWrite);
                    programs.push(Program::LenThenClosedWrite);
                    for p in programs {
                        // both a destination that takes everything and one that takes 4 KiB per write()
                        for cap in [0u32, 4096] {
                            let prefix = (h.iter().sum::<u32>() % 7) as u16 * 3;
                            let staged = run_seq(*inmemory, &h, p, prefix, cap).map_err(|m| {
                                obs.reduced = Some(
                                    serde_json::to_value(Case::Seq { inmemory: *inmemory, sizes: h.clone(), program: p, prefix, cap }).unwrap(),
                                );
                                m
                            })?;
                            obs.evals += 1;
                            if staged {
                                obs.nt_extra += 1;
                            }
                        }
                    }
                }
                obs.nontrivial = true;
                Ok(())
            }
            Case::Nested { inmem_outer, inmem_inner, order, sizes } => {
                obs.label("nested-buffers");
                obs.nontrivial = !*inmem_outer || !*inmem_inner;
                run_nested(*inmem_outer, *inmem_inner, *order, *sizes)
            }
            Case::Seq { inmemory, sizes, program, prefix, cap } => {
                obs.label(if *inmemory { "seq-memory" } else { "seq-tempfile" });
                obs.label_if(*cap > 0, "destination-with-short-writes");
                let staged = run_seq(*inmemory, sizes, *program, *prefix, *cap)?;
                obs.label_if(staged, "switch-between-writes-with-staged-data");
                obs.nontrivial = staged;
                Ok(())
            }
            Case::Threaded { inmemory, sizes, switch_after_us, poll, closed_write, seed, intensity, prefix, cap } => {
                obs.label_if(*cap > 0, "destination-with-short-writes");
                obs.label(if *inmemory { "threaded-memory" } else { "threaded-tempfile" });
                obs.label_if(*intensity > 0, "delays-on");
                obs.label_if(*closed_write, "threaded-closed-write");
                let (before_first, after_staged) =
                    run_threaded(*inmemory, sizes, *switch_after_us, *poll, *closed_write, *seed, *intensity, *prefix, *cap)?;
                obs.label_if(before_first, "switch-seen-before-first-write");
                obs.label_if(after_staged, "switch-seen-with-staged-data");
                obs.nontrivial = after_staged;
                Ok(())
            }
        }
    }
}
