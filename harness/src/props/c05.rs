//! C05 — the on-disk R-tree finds exactly what a linear scan finds, for every tree shape
use super::common::*;
use crate::drive;
use crate::indep::decode::{self, IndexInfo};
use crate::model::*;
use crate::runner::{Obs, Prop, Tier};
use crate::sink::{MemFile, SharedSink};
use bigtools::{BBIFileInfo, BBIFileRead, BigBedRead, BigWigRead, Block};
use byteordered::Endianness;
use proptest::prelude::*;
use serde::{Deserialize, Serialize};
use smallvec::SmallVec;
use std::io;

/// reader wrapper that records which data blocks the index search makes the reader fetch
pub struct Spy {
    pub inner: MemFile,
    pub fetched: std::sync::Arc<std::sync::Mutex<Vec<u64>>>,
}

fn block_offset(b: &Block) -> u64 {
    // Block { offset: N, size: M } — the offset field is crate-private, Debug is public
    let s = format!("{:?}", b);
    s.split("offset:")
        .nth(1)
        .and_then(|r| {
            r.trim()
                .split(|c: char| !c.is_ascii_digit())
                .next()
                .map(|d| d.to_string())
        })
        .and_then(|d| d.parse().ok())
        .unwrap_or(u64::MAX)
}

impl BBIFileRead for Spy {
    type Reader = MemFile;
    fn get_block_data(&mut self, info: &BBIFileInfo, block: &Block) -> io::Result<Vec<u8>> {
        self.fetched.lock().unwrap().push(block_offset(block));
        <MemFile as BBIFileRead>::get_block_data(&mut self.inner, info, block)
    }
    fn blocks_for_cir_tree_node(
        &mut self,
        endianness: Endianness,
        node_offset: u64,
        chrom_ix: u32,
        start: u32,
        end: u32,
    ) -> io::Result<(SmallVec<[u64; 4]>, SmallVec<[Block; 4]>)> {
        <MemFile as BBIFileRead>::blocks_for_cir_tree_node(
            &mut self.inner,
            endianness,
            node_offset,
            chrom_ix,
            start,
            end,
        )
    }
    fn raw_reader(&mut self) -> &mut MemFile {
        &mut self.inner
    }
}

#[derive(Serialize, Deserialize, Clone, Copy, Debug, PartialEq)]
pub enum Kind {
    /// bigWig: main index over disjoint monotone blocks + a zoom index with one record per block
    BigWig,
    /// bigBed: main index over blocks whose ends are not monotone
    BigBed,
}

#[derive(Serialize, Deserialize, Clone, Debug)]
pub struct Case {
    pub kind: Kind,
    /// index fan-out (block_size)
    pub b: u32,
    /// number of blocks per chromosome (items_per_slot = 1, so items = blocks)
    pub split: Vec<u32>,
    pub cached: bool,
    /// every position is shifted by this much (coordinates beyond 2^31, up to the top of u32)
    #[serde(default)]
    pub offset: u32,
}

pub struct C05;

/// restores full reads when a case ends (also on an early return)
struct ResetCap;
impl Drop for ResetCap {
    fn drop(&mut self) {
        crate::sink::set_read_cap(0);
    }
}

const STEP: u32 = 10;

fn build_bw(split: &[u32], offset: u32) -> BwInput {
    let mut chroms = vec![];
    for (ci, n) in split.iter().enumerate() {
        let mut vals = vec![];
        for i in 0..*n {
            // disjoint, touching neighbours every third block, gap otherwise; one zoom record each
            let s = offset + i * STEP;
            vals.push(BwVal {
                s,
                e: s + if i % 3 == 0 { STEP } else { STEP - 2 },
                v: (i + 1) as f32,
            });
        }
        chroms.push(BwChrom {
            name: format!("c{}", ci),
            size: offset + n * STEP + 5,
            vals,
        });
    }
    BwInput { chroms, unused: vec![] }
}

fn build_bb(split: &[u32], offset: u32) -> BbInput {
    let mut chroms = vec![];
    for (ci, n) in split.iter().enumerate() {
        let mut entries = vec![];
        for i in 0..*n {
            let s = offset + i * STEP;
            // every fourth entry is long (covers many later blocks), every seventh very long
            let len = if i % 7 == 0 {
                STEP * 40
            } else if i % 4 == 0 {
                STEP * 6 + 3
            } else {
                4
            };
            entries.push(BbEntry {
                s,
                e: s + len,
                rest: format!("e{}", i),
            });
        }
        chroms.push(BbChrom {
            name: format!("c{}", ci),
            size: offset + n * STEP + STEP * 41,
            entries,
        });
    }
    BbInput {
        chroms,
        unused: vec![],
        autosql: None,
    }
}

fn grid_opts(b: u32, zoom: bool) -> Opts {
    let mut o = Opts::default();
    o.items_per_slot = 1;
    o.block_size = b;
    o.compress = b % 2 == 0;
    o.zoom = if zoom {
        ZoomSpec::Manual(vec![STEP])
    } else {
        ZoomSpec::Manual(vec![])
    };
    o
}

/// queries for one chromosome: every block boundary and one base either side, whole chromosome,
/// empty prefix and suffix
fn queries(spans: &[(u32, u32)], size: u32) -> Vec<(u32, u32)> {
    let mut q = vec![(0, size), (0, 0), (size, size), (0, 1), (size.saturating_sub(1), size)];
    for (s, e) in spans {
        let pts = [s.saturating_sub(1), *s, s + 1, e.saturating_sub(1), *e, e + 1];
        // ranges that start or end on the block's boundaries or one base either side
        q.push((pts[0], pts[1]));
        q.push((pts[1], pts[2]));
        q.push((pts[0], pts[5]));
        q.push((pts[1], pts[4]));
        q.push((pts[2], pts[3]));
        q.push((pts[3], pts[4]));
        q.push((pts[4], pts[5]));
        q.push((pts[4], pts[4]));
        q.push((0, pts[1]));
        q.push((pts[4], size.max(pts[4])));
    }
    q.retain(|(s, e)| s <= e);
    q.sort();
    q.dedup();
    q
}

/// oracle: blocks fetched for (chrom, s, e) against the linear scan over the decoder's leaves
fn judge(ix: &IndexInfo, chrom: u32, s: u32, e: u32, fetched: &[u64], what: &str) -> Result<(), String> {
    let (must, may) = decode::scan_leaves(ix, chrom, s, e);
    let pos_of = |off: u64| ix.leaves.iter().position(|l| l.offset == off);
    let mut got_idx = vec![];
    for f in fetched {
        match pos_of(*f) {
            Some(i) => got_idx.push(i),
            None => return Err(format!("{}: fetched a block at offset {} that is no leaf of the index", what, f)),
        }
    }
    if got_idx.windows(2).any(|w| w[0] >= w[1]) {
        return Err(format!(
            "{}: query ({},{},{}) returned blocks out of file order or twice: {:?}",
            what, chrom, s, e, got_idx
        ));
    }
    for m in &must {
        if !got_idx.contains(m) {
            return Err(format!(
                "{}: query ({},[{},{})) misses block #{} span {:?} which a linear scan finds (returned {:?})",
                what, chrom, s, e, m, ix.leaves[*m], got_idx
            ));
        }
    }
    for g in &got_idx {
        if !may.contains(g) {
            return Err(format!(
                "{}: query ({},[{},{})) returned block #{} span {:?} which does not intersect the range",
                what, chrom, s, e, g, ix.leaves[*g]
            ));
        }
    }
    Ok(())
}

fn all_splits(n: u32) -> Vec<Vec<u32>> {
    let mut v = vec![vec![n]];
    if n >= 2 {
        if n <= 12 {
            for a in 1..n {
                v.push(vec![a, n - a]);
            }
            for a in 1..n {
                for b in 1..(n - a) {
                    v.push(vec![a, b, n - a - b]);
                }
            }
        } else {
            v.push(vec![n / 2, n - n / 2]);
            v.push(vec![1, n - 1]);
            v.push(vec![n / 3, n / 3, n - 2 * (n / 3)]);
        }
    }
    v
}

impl Prop for C05 {
    type Case = Case;
    const ID: &'static str = "C05";
    fn rule() -> String {
        "exhaustive grid: fan-out b in 2..=6 (thorough 2..=8), block count n in 1..=b^3+b+2 (1- to 4-level trees, full and partial last nodes), \
         chromosome splits {1; every 2- and 3-way split for n <= 12; 3 sampled splits beyond}, x {bigWig main index + zoom index, bigBed main index with non-monotone ends}, \
         written through the public API with items_per_slot = 1; every range that starts/ends on a block boundary or one base either side; \
         oracle = linear scan over the leaves found by the independent decoder (must = positive-length intersection, may = touching), file order, no duplicates; \
         the blocks the search returns are observed through a BBIFileRead wrapper. Plus generated (b, splits) with n up to 400. \
         non-trivial = tree with >= 2 node levels or a partly filled last node; distinct = distinct (kind, b, split, cached)"
            .into()
    }
    fn technique() -> String {
        "exhaustive small-scope enumeration + generated shapes, differential against a linear scan / independent tree walk".into()
    }
    fn assumptions() -> Vec<String> {
        vec!["the independent decoder's tree walk is trusted for the leaf list (it also asserts child-in-parent containment, uniform leaf depth and itemCount)".into()]
    }
    fn exhaustive(_tier: Tier) -> bool {
        true
    }
    fn cases(tier: Tier) -> u64 {
        tier.pick(300, 4000)
    }
    fn strategy(tier: Tier) -> BoxedStrategy<Case> {
        let maxb = tier.pick(6u32, 9u32);
        (
            prop_oneof![Just(Kind::BigWig), Just(Kind::BigBed)],
            2u32..=maxb,
            proptest::collection::vec(1u32..=140, 1..=4),
            any::<bool>(),
            prop_oneof![3 => Just(0u32), 1 => Just((1u32 << 31) - 35), 1 => Just(3_000_000_000u32), 1 => Just(u32::MAX - 8000)],
        )
            .prop_map(|(kind, b, split, cached, offset)| Case { kind, b, split, cached, offset })
            .boxed()
    }
    fn fixed_cases(tier: Tier) -> Vec<Case> {
        let maxb = tier.pick(6u32, 8u32);
        let mut v = vec![];
        for b in 2..=maxb {
            for n in 1..=(b * b * b + b + 2) {
                for split in all_splits(n) {
                    for kind in [Kind::BigWig, Kind::BigBed] {
                        v.push(Case {
                            kind,
                            b,
                            split: split.clone(),
                            cached: (n + b) % 5 == 0,
                            // a tenth of the grid sits astride 2^31 or at the top of the coordinate range
                            offset: match (n * 7 + b) % 20 { 3 => (1u32 << 31) - 35, 11 => u32::MAX - 8000, _ => 0 },
                        });
                    }
                }
            }
        }
        v
    }
    fn check(c: &Case, obs: &mut Obs) -> Result<(), String> {
        let n: u32 = c.split.iter().sum();
        obs.label(&format!("b={}", c.b));
        obs.label(&format!("chroms={}", c.split.len()));
        obs.label(if c.kind == Kind::BigWig { "bigwig+zoom-index" } else { "bigbed-nonmonotone-ends" });
        obs.label_if(c.cached, "cached-reader");
        obs.label_if(c.offset > 0, "coordinates-beyond-2^31");
        // a quarter of the cases read the file through a source that returns a few bytes per read()
        let cap = match (n + c.b * 3) % 8 { 1 => 7usize, 5 => 16, _ => 0 };
        crate::sink::set_read_cap(cap);
        obs.label_if(cap > 0, "source-with-short-reads");
        let _reset = ResetCap;
        let sink = SharedSink::new();
        let o = grid_opts(c.b, c.kind == Kind::BigWig);
        match c.kind {
            Kind::BigWig => {
                let input = build_bw(&c.split, c.offset);
                drive::write_bw(&input, &o, sink.clone()).map_err(|e| format!("writer refused the grid input: {}", e))?;
                let bytes = sink.bytes();
                let d = decode::decode(&bytes).map_err(|e| format!("independent decoder rejects the file: {}", e))?;
                if d.main_index.leaves.len() != n as usize {
                    return Err(format!("{} blocks expected, decoder finds {}", n, d.main_index.leaves.len()));
                }
                shape_labels(&d.main_index, c.b, obs);
                // leaf spans == item spans
                let mut k = 0;
                for (ci, ch) in input.chroms.iter().enumerate() {
                    for v in &ch.vals {
                        let l = &d.main_index.leaves[k];
                        if (l.start_chrom, l.start_base, l.end_chrom, l.end_base) != (ci as u32, v.s, ci as u32, v.e) {
                            return Err(format!("leaf #{} span {:?} differs from block content {:?}", k, l, v));
                        }
                        k += 1;
                    }
                }
                let z = d.zooms.first().ok_or("no zoom level written for the grid input")?;
                if z.index.leaves.len() != n as usize {
                    return Err(format!("{} zoom blocks expected, decoder finds {}", n, z.index.leaves.len()));
                }
                let mut cached = if c.cached { Some(open_bw(bytes.clone())?.cached()) } else { None };
                let log = std::sync::Arc::new(std::sync::Mutex::new(vec![]));
                let spy = Spy { inner: MemFile::new(bytes), fetched: log.clone() };
                let mut r = BigWigRead::open(spy).map_err(|e| format!("open failed: {}", e))?;
                for (ci, ch) in input.chroms.iter().enumerate() {
                    let spans: Vec<(u32, u32)> = ch.vals.iter().map(|v| (v.s, v.e)).collect();
                    for (s, e) in queries(&spans, ch.size) {
                        // main index
                        log.lock().unwrap().clear();
                        let got: Vec<BwVal> = r
                            .get_interval(&ch.name, s, e)
                            .map_err(|er| format!("get_interval failed: {}", er))?
                            .map(|v| v.map(|v| BwVal { s: v.start, e: v.end, v: v.value }))
                            .collect::<Result<_, _>>()
                            .map_err(|er| format!("get_interval item failed: {}", er))?;
                        let fetched = log.lock().unwrap().clone();
                        judge(&d.main_index, ci as u32, s, e, &fetched, "main index")?;
                        let want = ch.range_strict(s, e);
                        if !same_vals(&got, &want) {
                            return Err(format!(
                                "query ({:?},{},{}) = {:?}, linear scan gives {:?}",
                                ch.name, s, e, got, want
                            ));
                        }
                        if let Some(cr) = cached.as_mut() {
                            let gotc: Vec<BwVal> = cr
                                .get_interval(&ch.name, s, e)
                                .map_err(|er| format!("cached get_interval failed: {}", er))?
                                .map(|v| v.map(|v| BwVal { s: v.start, e: v.end, v: v.value }))
                                .collect::<Result<_, _>>()
                                .map_err(|er| format!("cached get_interval item failed: {}", er))?;
                            if !same_vals(&gotc, &want) {
                                return Err(format!(
                                    "cached reader: query ({:?},{},{}) = {:?}, linear scan gives {:?}",
                                    ch.name, s, e, gotc, want
                                ));
                            }
                            obs.evals += 1;
                        }
                        // zoom index
                        log.lock().unwrap().clear();
                        let zr: Vec<(u32, u32)> = r
                            .get_zoom_interval(&ch.name, s, e, STEP)
                            .map_err(|er| format!("get_zoom_interval failed: {}", er))?
                            .map(|v| v.map(|v| (v.start, v.end)))
                            .collect::<Result<_, _>>()
                            .map_err(|er| format!("get_zoom_interval item failed: {}", er))?;
                        let fetched = log.lock().unwrap().clone();
                        judge(&z.index, ci as u32, s, e, &fetched, "zoom index")?;
                        for v in &ch.vals {
                            if v.s < e && v.e > s && e > s && !zr.iter().any(|r| r.0 <= v.s && r.1 >= v.e) {
                                return Err(format!(
                                    "zoom query ({:?},{},{}) misses the record over {:?}: {:?}",
                                    ch.name, s, e, v, zr
                                ));
                            }
                        }
                        obs.evals += 2;
                    }
                }
            }
            Kind::BigBed => {
                let input = build_bb(&c.split, c.offset);
                drive::write_bb(&input, &o, sink.clone()).map_err(|e| format!("writer refused the grid input: {}", e))?;
                let bytes = sink.bytes();
                let d = decode::decode(&bytes).map_err(|e| format!("independent decoder rejects the file: {}", e))?;
                if d.main_index.leaves.len() != n as usize {
                    return Err(format!("{} blocks expected, decoder finds {}", n, d.main_index.leaves.len()));
                }
                shape_labels(&d.main_index, c.b, obs);
                let mut cached = if c.cached { Some(open_bb(bytes.clone())?.cached()) } else { None };
                let log = std::sync::Arc::new(std::sync::Mutex::new(vec![]));
                let spy = Spy { inner: MemFile::new(bytes), fetched: log.clone() };
                let mut r = BigBedRead::open(spy).map_err(|e| format!("open failed: {}", e))?;
                for (ci, ch) in input.chroms.iter().enumerate() {
                    let spans: Vec<(u32, u32)> = ch.entries.iter().map(|v| (v.s, v.e)).collect();
                    for (s, e) in queries(&spans, ch.size) {
                        log.lock().unwrap().clear();
                        let got = read_bb_range(&mut r, &ch.name, s, e)?;
                        let fetched = log.lock().unwrap().clone();
                        if let Some(cr) = cached.as_mut() {
                            let gotc = read_bb_range(cr, &ch.name, s, e)?;
                            if gotc != got {
                                return Err(format!(
                                    "cached reader answers query ({:?},{},{}) differently: {} vs {} entries",
                                    ch.name, s, e, gotc.len(), got.len()
                                ));
                            }
                            obs.evals += 1;
                        }
                        judge(&d.main_index, ci as u32, s, e, &fetched, "main index")?;
                        let must = ch.must(s, e);
                        let may = ch.may(s, e);
                        let mut gi = 0;
                        for (i, en) in ch.entries.iter().enumerate() {
                            let present = gi < got.len() && &got[gi] == en;
                            if present {
                                if !may.contains(&i) {
                                    return Err(format!(
                                        "query ({:?},{},{}) returned {:?} which lies wholly outside",
                                        ch.name, s, e, en
                                    ));
                                }
                                gi += 1;
                            } else if must.contains(&i) {
                                return Err(format!(
                                    "query ({:?},{},{}) misses entry {:?} (returned {} entries)",
                                    ch.name,
                                    s,
                                    e,
                                    en,
                                    got.len()
                                ));
                            }
                        }
                        if gi != got.len() {
                            return Err(format!("query ({:?},{},{}) result is not a subsequence of the stored entries", ch.name, s, e));
                        }
                        obs.evals += 1;
                    }
                }
            }
        }
        Ok(())
    }
}

fn shape_labels(ix: &IndexInfo, b: u32, obs: &mut Obs) {
    obs.label(&format!("node-levels={}", ix.levels.min(6)));
    let partial = ix.nodes.iter().any(|(_, _, count)| (*count as u32) < b);
    obs.label_if(partial, "partial-node");
    obs.nontrivial = ix.levels >= 2 || partial;
}

