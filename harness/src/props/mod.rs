pub mod common;
pub mod c01;
pub mod c02;
pub mod written;
pub mod c09;
