pub mod common;
pub mod c01;
pub mod c02;
