//! C04 — bigBed range queries miss no overlapping entry and return no disjoint one
use super::c02;
use super::c03::{pos_sel, scale, PosSel};
use super::common::*;
use crate::drive;
use crate::gen;
use crate::model::*;
use crate::runner::{Obs, Prop, Tier};
use crate::sink::SharedSink;
use proptest::prelude::*;
use serde::{Deserialize, Serialize};

#[derive(Serialize, Deserialize, Clone, Debug, PartialEq)]
pub enum QOp {
    Interval { c: u16, a: PosSel, b: PosSel },
    /// a point strictly inside entry #idx, `frac` of the way along it
    Inside { c: u16, idx: u16, frac: u16, width: u8 },
    Repeat(u16),
}

#[derive(Serialize, Deserialize, Clone, Debug)]
pub struct Case {
    pub file: c02::Case,
    pub history: Vec<QOp>,
}

pub struct C04;

fn qop() -> BoxedStrategy<QOp> {
    prop_oneof![
        5 => (any::<u16>(), pos_sel(), pos_sel()).prop_map(|(c, a, b)| QOp::Interval { c, a, b }),
        4 => (any::<u16>(), any::<u16>(), any::<u16>(), 1u8..=40).prop_map(|(c, idx, frac, width)| QOp::Inside { c, idx, frac, width }),
        2 => any::<u16>().prop_map(QOp::Repeat),
    ]
    .boxed()
}

/// rule 3: result ⊇ must, ⊆ may, subsequence of the stored order, each stored entry at most once
pub fn judge_bb(ch: &BbChrom, s: u32, e: u32, got: &[BbEntry], who: &str) -> Result<(), String> {
    let must = ch.must(s, e);
    let may = ch.may(s, e);
    let mut mi = 0usize; // pointer into must
    let mut gi = 0usize;
    for (i, en) in ch.entries.iter().enumerate() {
        let is_must = mi < must.len() && must[mi] == i;
        if is_must {
            mi += 1;
        }
        let present = gi < got.len() && &got[gi] == en;
        if present {
            if may.binary_search(&i).is_err() {
                return Err(format!(
                    "{}: get_interval({:?},{},{}) returned {:?} which lies wholly outside the range",
                    who, ch.name, s, e, en
                ));
            }
            gi += 1;
        } else if is_must {
            return Err(format!(
                "{}: get_interval({:?},{},{}) misses entry #{} {:?} which overlaps the range (returned {} of {} overlapping)",
                who,
                ch.name,
                s,
                e,
                i,
                (en.s, en.e, &en.rest),
                got.len(),
                must.len()
            ));
        }
    }
    if gi != got.len() {
        return Err(format!(
            "{}: get_interval({:?},{},{}) returned {:?} at position {} which is not the next stored entry (duplicate, reordered or invented)",
            who,
            ch.name,
            s,
            e,
            got.get(gi),
            gi
        ));
    }
    Ok(())
}

/// bias: a very long entry early in the chromosome, short ones after it
fn long_early(tier: Tier) -> BoxedStrategy<(BbInput, Opts)> {
    let mi = gen::tier_items(tier);
    (
        gen::opts(false),
        proptest::collection::vec((0u32..40, 1u32..30), 2..=mi),
        1000u32..2_000_000,
        0usize..6,
    )
        .prop_map(|(mut o, short, long_len, long_at)| {
            let mut entries = vec![];
            let mut start = 0u32;
            for (i, (d, l)) in short.iter().enumerate() {
                start += d;
                let len = if i == long_at.min(short.len() - 1) { long_len } else { *l };
                entries.push(BbEntry { s: start, e: start + len, rest: format!("n{}", i) });
            }
            let size = entries.iter().map(|e| e.e).max().unwrap() + 10;
            o.sorted_chroms = true;
            let input = BbInput {
                chroms: vec![BbChrom { name: "chrL".into(), size, entries }],
                unused: vec![],
                autosql: None,
            };
            gen::tame_zooms(size as u64, input.n_items() as u64, &mut o, gen::zoom_budget(Tier::Quick));
            (input, o)
        })
        .boxed()
}

/// (block index of entry i, is it the last of its block, the block's last end)
fn d1_shape(ch: &BbChrom, ips: u32, must: &[usize]) -> bool {
    let ips = ips as usize;
    for i in must {
        let b0 = (i / ips) * ips;
        let b1 = (b0 + ips).min(ch.entries.len());
        if *i != b1 - 1 && ch.entries[*i].e > ch.entries[b1 - 1].e {
            return true;
        }
    }
    false
}

impl Prop for C04 {
    type Case = Case;
    const ID: &'static str = "C04";
    fn rule() -> String {
        "a C02 file (half of them biased to a very long entry early in a chromosome followed by short ones) plus a history of 5..50 range queries (entry boundaries +-1, \
         points strictly inside an entry, random ranges, repeats) run on a plain and a cached reader; oracle per answer: every entry with positive-length overlap is returned, \
         nothing wholly outside [s,e] is returned, the answer is a subsequence of the stored order with each stored entry at most once; cached == plain. \
         non-trivial = some query must return an entry that is NOT the last of its block and ends beyond that block's last entry (the shape that defeats 'end of last child' spans); distinct = distinct case JSON"
            .into()
    }
    fn technique() -> String {
        "model-based testing over generated query histories (proptest), must/may oracle from a linear scan".into()
    }
    fn assumptions() -> Vec<String> {
        vec!["queries with s < e only (the statement's domain); entries touching a boundary may or may not be returned".into()]
    }
    fn cases(tier: Tier) -> u64 {
        tier.pick(12_000, 60_000)
    }
    fn strategy(tier: Tier) -> BoxedStrategy<Case> {
        let file = prop_oneof![
            gen::bb_case(tier, false, true).prop_map(c02::make_case),
            long_early(tier).prop_map(c02::make_case),
        ];
        (file, proptest::collection::vec(qop(), 5..=50))
            .prop_map(|(file, history)| Case { file, history })
            .boxed()
    }
    fn fixed_cases(_tier: Tier) -> Vec<Case> {
        // scale: 70 000 single-entry blocks under a fan-out-2 index; the whole chromosome, halves, points
        let whole = QOp::Interval { c: 0, a: PosSel::Zero, b: PosSel::Size };
        let left = QOp::Interval { c: 0, a: PosSel::Zero, b: PosSel::Frac(40_000) };
        let right = QOp::Interval { c: 0, a: PosSel::Frac(20_000), b: PosSel::Size };
        vec![
            Case { file: c02::wide_node_case(3000), history: vec![whole.clone(), QOp::Inside { c: 0, idx: 30_000, frac: 100, width: 3 }, QOp::Repeat(0)] },
            Case {
            file: c02::deep_index_case(70_000),
            history: vec![
                whole.clone(),
                QOp::Inside { c: 0, idx: 60_000, frac: 100, width: 3 },
                left,
                right,
                QOp::Repeat(0),
                whole,
            ],
        }]
    }
    fn check(case: &Case, obs: &mut Obs) -> Result<(), String> {
        let input = &case.file.input;
        let o = &case.file.opts;
        gen::label_opts(o, obs);
        c02::label_shape_bb(input, o, obs);
        let sink = SharedSink::new();
        if let Err(e) = drive::write_bb(input, o, sink.clone()) {
            obs.label("writer-refused");
            obs.notes.push(format!("writer refused generated input: {}", e));
            return Ok(());
        }
        let bytes = sink.bytes();
        let mut plain = open_bb(bytes.clone())?;
        let mut cached = open_bb(bytes)?.cached();
        let bounds: Vec<Vec<(u32, u32)>> = input
            .chroms
            .iter()
            .map(|c| c.entries.iter().map(|v| (v.s, v.e.min(c.size))).collect())
            .collect();
        let mut resolved: Vec<(usize, u32, u32)> = vec![];
        let mut repeats = 0;
        for op in &case.history {
            let q = match op {
                QOp::Interval { c, a, b } => {
                    let ci = scale(*c, input.chroms.len());
                    let ch = &input.chroms[ci];
                    let p = a.resolve(&bounds[ci], ch.size);
                    let q = b.resolve(&bounds[ci], ch.size);
                    (ci, p.min(q), p.max(q))
                }
                QOp::Inside { c, idx, frac, width } => {
                    let ci = scale(*c, input.chroms.len());
                    let ch = &input.chroms[ci];
                    let en = &ch.entries[scale(*idx, ch.entries.len())];
                    let len = (en.e.min(ch.size) - en.s.min(ch.size)) as u64;
                    let p = en.s as u64 + ((*frac as u64 * len) >> 16);
                    let s = (p as u32).min(ch.size.saturating_sub(1));
                    (ci, s, s.saturating_add(*width as u32).min(ch.size))
                }
                QOp::Repeat(k) => {
                    if resolved.is_empty() {
                        continue;
                    }
                    repeats += 1;
                    resolved[scale(*k, resolved.len())]
                }
            };
            if q.1 >= q.2 {
                continue; // the statement quantifies over s < e
            }
            resolved.push(q);
        }
        let mut shape = false;
        for (ci, s, e) in &resolved {
            let ch = &input.chroms[*ci];
            let got = read_bb_range(&mut plain, &ch.name, *s, *e)?;
            judge_bb(ch, *s, *e, &got, "plain reader")?;
            let gotc = read_bb_range(&mut cached, &ch.name, *s, *e)?;
            if gotc != got {
                return Err(format!(
                    "cached reader answers get_interval({:?},{},{}) differently: {} entries vs {}",
                    ch.name,
                    s,
                    e,
                    gotc.len(),
                    got.len()
                ));
            }
            if !shape && d1_shape(ch, o.items_per_slot, &ch.must(*s, *e)) {
                shape = true;
            }
            obs.evals += 2;
        }
        obs.label_if(shape, "must-entry-longer-than-block-tail");
        obs.label_if(repeats > 0, "history-repeats-query");
        obs.nontrivial = shape;
        Ok(())
    }
}
