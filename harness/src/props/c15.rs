//! C15 — merging and gap-filling value streams preserve the per-base signal
use crate::drive;
use crate::gen;
use crate::model::*;
use crate::runner::{mark_progress, Obs, Prop, Tier};
use bigtools::utils::fill::{fill, fill_start_to_end};
use bigtools::utils::merge::{merge_into, merge_sections_many};
use bigtools::Value;
use proptest::prelude::*;
use proptest::sample::select;
use serde::{Deserialize, Serialize};
use std::io;
use std::process::Command;

#[derive(Serialize, Deserialize, Clone, Debug, PartialEq)]
pub struct V {
    pub s: u32,
    pub e: u32,
    #[serde(with = "f32_exact")]
    pub v: f32,
}

#[derive(Serialize, Deserialize, Clone, Debug)]
pub enum Case {
    /// merge_sections_many over 1..=6 streams on one chromosome
    Merge { streams: Vec<Vec<V>>, dyadic: bool },
    /// merge_into on one overlapping pair
    Pair { one: V, two: V },
    /// fill / fill_start_to_end
    Fill { vals: Vec<V>, start_to_end: Option<(u32, u32)> },
    /// bigwigmerge on 1..=4 generated bigWigs
    Tool {
        /// per input: chromosome -> values; chromosome names from a shared list
        inputs: Vec<Vec<(u8, Vec<V>)>>,
        sizes: Vec<u32>,
        #[serde(with = "f32_exact")]
        threshold: f32,
        clip: Option<i32>,
        adjust: Option<i32>,
        threads: u8,
    },
}

pub struct C15;

const WINDOW: u32 = 50_000;

fn val_strategy(dyadic: bool) -> BoxedStrategy<f32> {
    if dyadic {
        prop_oneof![
            4 => (-40i32..=40).prop_map(|i| i as f32 / 4.0),
            1 => Just(0.0f32),
            1 => select(vec![1.0f32, -1.0, 2.5, -2.5, 1024.0, -1024.0]),
            // exactly representable, but 2^24 + 1 is not: a sum accumulated in single precision
            // (instead of being rounded once) loses the small addend of a cancelling triple
            1 => select(vec![16777216.0f32, -16777216.0, 33554432.0, -33554432.0]),
        ]
        .boxed()
    } else {
        gen::finite_f32()
    }
}

/// sorted disjoint positive-length values; positions biased to 0 and the 50 000 window boundaries
fn stream(dyadic: bool, max_items: usize) -> BoxedStrategy<Vec<V>> {
    let anchor = prop_oneof![
        2 => Just(0u32),
        2 => (WINDOW - 12)..(WINDOW + 12),
        2 => (2 * WINDOW - 12)..(2 * WINDOW + 12),
        1 => 0u32..1000,
        1 => 0u32..(3 * WINDOW),
    ];
    let gap = prop_oneof![3 => Just(0u32), 3 => 1u32..8, 2 => 8u32..200, 1 => 200u32..60_000];
    let len = prop_oneof![4 => 1u32..8, 3 => 8u32..200, 1 => 200u32..70_000];
    (anchor, proptest::collection::vec((gap, len, val_strategy(dyadic)), 0..=max_items))
        .prop_map(|(a, items)| {
            let mut pos = a;
            let mut out = vec![];
            for (g, l, v) in items {
                let s = pos + g;
                let e = s + l;
                out.push(V { s, e, v });
                pos = e;
            }
            out
        })
        .boxed()
}

fn to_values(vs: &[V]) -> Vec<Value> {
    vs.iter().map(|v| Value { start: v.s, end: v.e, value: v.v }).collect()
}

/// per-base f64 sums in stream order over [0, hi)
fn sums(streams: &[Vec<V>], hi: usize) -> (Vec<f64>, Vec<bool>, Vec<f64>) {
    let mut sum = vec![0f64; hi];
    let mut has = vec![false; hi];
    let mut mag = vec![0f64; hi];
    for st in streams {
        for v in st {
            for p in v.s..v.e {
                sum[p as usize] += v.v as f64;
                mag[p as usize] += (v.v as f64).abs();
                has[p as usize] = true;
            }
        }
    }
    (sum, has, mag)
}

fn f32_close(got: f32, want: f64, mag: f64) -> bool {
    let w32 = want as f32;
    if got.to_bits() == w32.to_bits() || got == w32 {
        return true;
    }
    close_f32(got as f64, want, mag.max(want.abs()))
}

fn check_merge(streams: &[Vec<V>], dyadic: bool) -> Result<(), String> {
    mark_progress();
    let hi = streams.iter().flat_map(|s| s.iter()).map(|v| v.e).max().unwrap_or(0) as usize;
    let iters: Vec<_> = streams
        .iter()
        .map(|s| to_values(s).into_iter().map(|v| -> Result<Value, io::Error> { Ok(v) }))
        .collect();
    let out: Vec<Value> = merge_sections_many(iters)
        .collect::<Result<Vec<_>, _>>()
        .map_err(|e| format!("merge returned an error: {}", e))?;
    // sorted, non-overlapping, positive length
    for w in out.windows(2) {
        if w[0].end > w[1].start {
            return Err(format!("merged stream overlaps or is out of order: {:?} then {:?}", w[0], w[1]));
        }
    }
    for v in &out {
        if v.end <= v.start {
            return Err(format!("merged stream holds a value without positive length: {:?}", v));
        }
        if v.end as usize > hi {
            return Err(format!("merged stream holds {:?} beyond the end of all inputs ({})", v, hi));
        }
    }
    let (sum, has, mag) = sums(streams, hi);
    let mut got: Vec<Option<f32>> = vec![None; hi];
    for v in &out {
        for p in v.start..v.end {
            got[p as usize] = Some(v.value);
        }
    }
    for p in 0..hi {
        let want_present = has[p] && sum[p] != 0.0;
        match got[p] {
            Some(g) => {
                if !has[p] {
                    return Err(format!("base {}: merged value {} where no input has data", p, g));
                }
                if dyadic {
                    if !want_present {
                        return Err(format!("base {}: merged value {} but the inputs sum to zero there", p, g));
                    }
                    if g.to_bits() != (sum[p] as f32).to_bits() {
                        return Err(format!("base {}: merged value {}, inputs sum to {}", p, g, sum[p]));
                    }
                } else {
                    // a sum below f32's range may be reported as (about) zero or dropped
                    if !f32_close(g, sum[p], mag[p]) {
                        return Err(format!("base {}: merged value {}, inputs sum to {}", p, g, sum[p]));
                    }
                }
            }
            None => {
                if want_present {
                    let tiny = (sum[p] as f32) == 0.0 || sum[p].abs() <= 4.0 * f32::EPSILON as f64 * mag[p];
                    if dyadic || !tiny {
                        return Err(format!(
                            "base {}: inputs sum to {} but the merged stream has no value there",
                            p, sum[p]
                        ));
                    }
                }
            }
        }
    }
    Ok(())
}

fn check_pair(one: &V, two: &V) -> Result<(), String> {
    let o = Value { start: one.s, end: one.e, value: one.v };
    let t = Value { start: two.s, end: two.e, value: two.v };
    let (a, b, c, d) = merge_into(o, t);
    let pieces: Vec<Value> = [Some(a), b, c, d].into_iter().flatten().collect();
    for w in pieces.windows(2) {
        if w[0].end > w[1].start {
            return Err(format!("merge_into({:?},{:?}) pieces overlap or are out of order: {:?}", one, two, pieces));
        }
    }
    let lo = one.s.min(two.s);
    let hi = one.e.max(two.e);
    for p in lo..hi {
        let mut want = 0f32;
        let mut covered = false;
        if p >= one.s && p < one.e {
            want += one.v;
            covered = true;
        }
        if p >= two.s && p < two.e {
            // same association as the function under test (one + two)
            want = if covered { one.v + two.v } else { two.v };
            covered = true;
        }
        let got = pieces.iter().find(|v| v.start <= p && p < v.end).map(|v| v.value);
        match (covered, got) {
            (true, Some(g)) => {
                if g.to_bits() != want.to_bits() && !(g == want) {
                    return Err(format!("merge_into({:?},{:?}): base {} has {}, expected {}; pieces {:?}", one, two, p, g, want, pieces));
                }
            }
            (true, None) => return Err(format!("merge_into({:?},{:?}): base {} lost; pieces {:?}", one, two, p, pieces)),
            (false, Some(g)) => return Err(format!("merge_into({:?},{:?}): base {} invented ({}); pieces {:?}", one, two, p, g, pieces)),
            (false, None) => {}
        }
    }
    if pieces.iter().any(|v| v.start < lo || v.end > hi || v.end <= v.start) {
        return Err(format!("merge_into({:?},{:?}): a piece lies outside the union or is empty: {:?}", one, two, pieces));
    }
    Ok(())
}

fn check_fill(vals: &[V], ste: Option<(u32, u32)>) -> Result<(), String> {
    let input: Vec<io::Result<Value>> = to_values(vals).into_iter().map(Ok).collect();
    let out: Vec<Value> = match ste {
        None => fill(input.into_iter()).collect::<Result<Vec<_>, _>>(),
        Some((s, e)) => fill_start_to_end(input.into_iter(), s, e).collect::<Result<Vec<_>, _>>(),
    }
    .map_err(|e| format!("fill returned an error: {}", e))?;
    let (lo, hi) = match ste {
        None => (0, vals.last().map(|v| v.e).unwrap_or(0)),
        Some((s, e)) => (s, e),
    };
    // gapless tiling of [lo, hi)
    let mut pos = lo;
    for v in &out {
        if v.start != pos {
            return Err(format!("fill output is not a gapless tiling: expected a value starting at {}, got {:?} (output {:?})", pos, v, out));
        }
        if v.end < v.start {
            return Err(format!("fill output holds an inverted value {:?}", v));
        }
        pos = v.end;
    }
    if pos != hi {
        return Err(format!("fill output ends at {} instead of {} (output {:?})", pos, hi, out));
    }
    // every original value unchanged and in order; everything else is an added 0.0 inside a former gap
    let mut oi = 0;
    for v in &out {
        if oi < vals.len() && v.start == vals[oi].s && v.end == vals[oi].e && v.value.to_bits() == vals[oi].v.to_bits() {
            oi += 1;
        } else {
            if v.value != 0.0 || v.value.is_sign_negative() {
                return Err(format!("fill added the non-zero value {:?}", v));
            }
            if vals.iter().any(|o| o.s < v.end && v.start < o.e) {
                return Err(format!("fill added {:?} over original data", v));
            }
        }
    }
    if oi != vals.len() {
        return Err(format!("fill dropped or altered original value #{} {:?} (output {:?})", oi, vals.get(oi), out));
    }
    Ok(())
}

// ---------------------------------------------------------------------------------------------
// tool level

fn bin(name: &str) -> Option<String> {
    let dir = std::env::var("VERIF_BIN").ok()?;
    let p = format!("{}/{}", dir, name);
    std::path::Path::new(&p).exists().then_some(p)
}

fn chrom_name(i: u8) -> String {
    ["chr1", "chr2", "chrX", "scaffold_9"][i as usize % 4].to_string()
}

fn run(args: &[String]) -> Result<(i32, String, String), String> {
    mark_progress();
    let out = Command::new(&args[0])
        .args(&args[1..])
        .env("RUST_BACKTRACE", "0")
        .output()
        .map_err(|e| format!("cannot run {}: {}", args[0], e))?;
    Ok((
        out.status.code().unwrap_or(-1),
        String::from_utf8_lossy(&out.stdout).to_string(),
        String::from_utf8_lossy(&out.stderr).to_string(),
    ))
}

type PerBase = std::collections::BTreeMap<(String, u32), f32>;

fn expected_tool(inputs: &[Vec<(u8, Vec<V>)>], threshold: f32, clip: Option<f32>, adjust: Option<f32>) -> PerBase {
    let mut out = PerBase::new();
    for ci in 0..4u8 {
        let streams: Vec<Vec<V>> = inputs
            .iter()
            .filter_map(|inp| inp.iter().find(|(c, _)| *c == ci).map(|(_, v)| v.clone()))
            .collect();
        if streams.is_empty() {
            continue;
        }
        let hi = streams.iter().flat_map(|s| s.iter()).map(|v| v.e).max().unwrap_or(0) as usize;
        let (sum, has, _) = sums(&streams, hi);
        for p in 0..hi {
            if has[p] && sum[p] != 0.0 {
                let mut v = sum[p] as f32;
                if let Some(c) = clip {
                    v = c.min(v);
                }
                v += adjust.unwrap_or(0.0);
                if v > threshold {
                    out.insert((chrom_name(ci), p as u32), v);
                }
            }
        }
    }
    out
}

fn per_base_from_bedgraph(text: &str) -> Result<PerBase, String> {
    let mut out = PerBase::new();
    for l in text.lines() {
        let f: Vec<&str> = l.split('\t').collect();
        if f.len() != 4 {
            return Err(format!("bedGraph line with {} columns: {:?}", f.len(), l));
        }
        let s: u32 = f[1].parse().map_err(|_| format!("bad start in {:?}", l))?;
        let e: u32 = f[2].parse().map_err(|_| format!("bad end in {:?}", l))?;
        let v: f32 = f[3].parse().map_err(|_| format!("bad value in {:?}", l))?;
        for p in s..e {
            if out.insert((f[0].to_string(), p), v).is_some() {
                return Err(format!("bedGraph output covers base {} of {} twice", p, f[0]));
            }
        }
    }
    Ok(out)
}

fn per_base_from_bigwig(path: &str) -> Result<PerBase, String> {
    let mut r = bigtools::BigWigRead::open_file(path).map_err(|e| format!("output {} is not a readable bigWig: {}", path, e))?;
    let chroms: Vec<(String, u32)> = r.chroms().iter().map(|c| (c.name.clone(), c.length)).collect();
    let mut out = PerBase::new();
    for (name, len) in chroms {
        let it = r.get_interval(&name, 0, len).map_err(|e| format!("reading {}: {}", path, e))?;
        for v in it {
            let v = v.map_err(|e| format!("reading {}: {}", path, e))?;
            for p in v.start..v.end {
                out.insert((name.clone(), p), v.value);
            }
        }
    }
    Ok(out)
}

fn compare_maps(got: &PerBase, want: &PerBase, what: &str) -> Result<(), String> {
    for (k, w) in want {
        match got.get(k) {
            None => return Err(format!("{}: base {} of {} should carry {} but is absent", what, k.1, k.0, w)),
            Some(g) => {
                if g.to_bits() != w.to_bits() && g != w {
                    return Err(format!("{}: base {} of {} carries {}, expected {}", what, k.1, k.0, g, w));
                }
            }
        }
    }
    for (k, g) in got {
        if !want.contains_key(k) {
            return Err(format!("{}: base {} of {} carries {} but should be absent", what, k.1, k.0, g));
        }
    }
    Ok(())
}

fn check_tool(
    inputs: &[Vec<(u8, Vec<V>)>],
    sizes: &[u32],
    threshold: f32,
    clip: Option<f32>,
    adjust: Option<f32>,
    threads: u8,
    obs: &mut Obs,
) -> Result<(), String> {
    let merge = match bin("bigwigmerge") {
        Some(b) => b,
        None => {
            obs.label("tool-binaries-missing");
            return Ok(());
        }
    };
    let dir = tempfile::Builder::new()
        .prefix("c15_")
        .tempdir_in(std::env::var("VERIF_TMP").unwrap_or_else(|_| std::env::temp_dir().to_string_lossy().to_string()))
        .map_err(|e| e.to_string())?;
    let p = |f: &str| dir.path().join(f).to_string_lossy().to_string();
    // write the inputs with the library
    let mut in_paths: Vec<String> = vec![];
    for (i, inp) in inputs.iter().enumerate() {
        let chroms: Vec<BwChrom> = {
            let mut v: Vec<&(u8, Vec<V>)> = inp.iter().collect();
            v.sort_by_key(|(c, _)| chrom_name(*c));
            v.iter()
                .map(|(c, vals)| BwChrom {
                    name: chrom_name(*c),
                    size: sizes[*c as usize % 4],
                    vals: vals.iter().map(|v| BwVal { s: v.s, e: v.e, v: v.v }).collect(),
                })
                .collect()
        };
        // threads == 255: an input identical to an earlier one is passed as the SAME path again
        if threads == 255 {
            if let Some(j) = inputs[..i].iter().position(|x| format!("{:?}", x) == format!("{:?}", inp)) {
                let same: String = in_paths[j].clone();
                in_paths.push(same);
                obs.label("same-path-listed-twice");
                continue;
            }
        }
        let path = p(&format!("in{}.bw", i));
        let f = std::fs::File::create(&path).map_err(|e| e.to_string())?;
        let mut o = Opts::default();
        o.items_per_slot = 8;
        drive::write_bw(&BwInput { chroms, unused: vec![] }, &o, f).map_err(|e| format!("cannot write input bigWig: {}", e))?;
        in_paths.push(path);
    }
    let want = expected_tool(inputs, threshold, clip, adjust);
    let mut common: Vec<String> = vec![];
    for ip in &in_paths {
        common.push("-b".into());
        common.push(ip.clone());
    }
    // negative numbers must use the --flag=value form (clap does not take '-1' as a value)
    common.push(format!("--threshold={}", threshold));
    if let Some(c) = clip {
        common.push(format!("--clip={}", c));
    }
    if let Some(a) = adjust {
        common.push(format!("--adjust={}", a));
    }
    common.push("-t".into());
    common.push(format!("{}", if threads == 255 { 2 } else { threads.max(1) }));
    // every documented output name, and the explicit type flag
    let outputs: Vec<(&str, Option<&str>, bool)> = vec![
        ("out.bedGraph", None, false),
        ("out.bw", None, true),
        ("out.bigWig", None, true),
        ("out_explicit.dat", Some("bedgraph"), false),
        ("out_explicit2.dat", Some("BigWig"), true),
    ];
    for (name, ty, is_bw) in outputs {
        let prefilled = name == "out.bedGraph" || name == "out.bw";
        if prefilled {
            // these two paths already hold an older, longer result (the other three are fresh)
            let mut old = String::new();
            for k in 0..3000u32 {
                old.push_str(&format!("zzStale\t{}\t{}\t7.5\n", k * 10, k * 10 + 5));
            }
            std::fs::write(p(name), old).map_err(|e| e.to_string())?;
        }
        let mut args = vec![merge.clone(), p(name)];
        args.extend(common.iter().cloned());
        if let Some(t) = ty {
            args.push("--output-type".into());
            args.push(t.into());
        }
        let (rc, _o, e) = run(&args)?;
        let what = format!("bigwigmerge -> {}{}", name, ty.map(|t| format!(" (--output-type {})", t)).unwrap_or_default());
        if rc != 0 && !want.is_empty() {
            return Err(format!("{} failed (rc {}): {}", what, rc, e));
        }
        if rc != 0 && prefilled {
            continue; // nothing to merge and the tool said so: what lies at the path is the older file
        }
        if !std::path::Path::new(&p(name)).exists() {
            if want.is_empty() {
                continue;
            }
            return Err(format!("{}: documented output name produced no file (stderr: {})", what, e.trim()));
        }
        let got = if is_bw {
            if want.is_empty() {
                continue; // nothing survives the threshold: an empty bigWig cannot be written
            }
            per_base_from_bigwig(&p(name)).map_err(|m| format!("{}: {}", what, m))?
        } else {
            let text = std::fs::read_to_string(p(name)).map_err(|e| e.to_string())?;
            per_base_from_bedgraph(&text).map_err(|m| format!("{}: {}", what, m))?
        };
        compare_maps(&got, &want, &what)?;
        obs.evals += 1;
    }
    Ok(())
}

/// `n` small inputs: the first 60 % carry -1, the rest +1 on [0,10) of chr1 (partial sums of the first
/// group are negative, the total is not their clipped / adjusted / thresholded combination)
fn many_inputs(n: usize, threshold: f32, clip: Option<i32>, adjust: Option<i32>) -> Case {
    let mut inputs = vec![];
    for i in 0..n {
        let v = if i < n * 6 / 10 { -1.0 } else { 1.0 };
        let mut vals = vec![V { s: 0, e: 10, v }];
        if i % 7 == 0 {
            vals.push(V { s: 20 + (i as u32 % 5), e: 40, v: 0.5 });
        }
        inputs.push(vec![(0u8, vals)]);
    }
    Case::Tool { inputs, sizes: vec![1000; 4], threshold, clip, adjust, threads: 2 }
}

impl Prop for C15 {
    type Case = Case;
    const ID: &'static str = "C15";
    fn rule() -> String {
        "LIBRARY: 1..=6 streams of sorted disjoint values on one chromosome, positions biased to 0 and to the 50 000 / 100 000 work-window boundaries, very different stream lengths, cancelling +-v, explicit zeros; \
         dyadic-valued cases are compared exactly, arbitrary finite values within 4 ulp(f32) of the sum of magnitudes; oracle for merge_sections_many: sorted, non-overlapping, positive lengths, per base the f32 of the \
         f64 sum in stream order, absent exactly where no stream has data or the sum is zero; merge_into on overlapping pairs: pieces tile the union with the per-base sum; fill / fill_start_to_end: gapless tiling, originals unchanged and in order, only 0.0 added in former gaps. \
         TOOL: 1..=4 bigWigs written with the library (chromosomes missing from some, values starting at base 0), bigwigmerge with clip / adjust / threshold to out.bedGraph, out.bw, out.bigWig and via --output-type (the first two paths already hold an older, longer file); \
         every base must carry min(clip, sum) + adjust iff that is > threshold and the sum is non-zero; all outputs agree. \
         non-trivial = a value crossing a 50 000 boundary with >= 2 streams overlapping there (library) / a value starting at base 0 (tool); distinct = distinct case JSON"
            .into()
    }
    fn technique() -> String {
        "property-based testing against a per-base reference model; CLI differential across output kinds".into()
    }
    fn assumptions() -> Vec<String> {
        vec![
            "streams are sorted, disjoint and of positive length; positions < 300 000 so that the per-base model stays dense".into(),
            "sum order = stream order (the order of -b arguments); dyadic values make the sum order-free and are compared exactly".into(),
        ]
    }
    fn cases(tier: Tier) -> u64 {
        tier.pick(60_000, 600_000)
    }
    fn strategy(_tier: Tier) -> BoxedStrategy<Case> {
        let merge = any::<bool>()
            .prop_flat_map(|dyadic| {
                (
                    proptest::collection::vec(
                        prop_oneof![3 => stream(dyadic, 12), 1 => stream(dyadic, 60), 1 => stream(dyadic, 2)],
                        1..=6,
                    ),
                    Just(dyadic),
                )
            })
            .prop_map(|(streams, dyadic)| Case::Merge { streams, dyadic });
        let pair = (0u32..50, 1u32..30, 0i32..40, 1u32..30, val_strategy(true), val_strategy(true)).prop_map(|(s1, l1, off, l2, v1, v2)| {
            // construct a true overlap: two.start in (one.start - l2, one.end)
            let one = V { s: s1 + 40, e: s1 + 40 + l1, v: v1 };
            let lo = one.s as i64 - l2 as i64 + 1;
            let hi = one.e as i64 - 1;
            let s2 = (lo + (off as i64 % (hi - lo + 1))).max(0) as u32;
            let two = V { s: s2, e: s2 + l2, v: v2 };
            Case::Pair { one, two }
        });
        let fillc = (stream(true, 20), proptest::option::of((0u32..60, 0u32..2000))).prop_map(|(vals, ste)| {
            let ste = ste.map(|(before, after)| {
                let first = vals.first().map(|v| v.s).unwrap_or(0);
                let last = vals.last().map(|v| v.e).unwrap_or(first);
                (first.saturating_sub(before), last + after)
            });
            Case::Fill { vals, start_to_end: ste }
        });
        let tool = (
            proptest::collection::vec(proptest::collection::vec((0u8..3, stream(true, 6)), 1..=3), 1..=4),
            prop_oneof![3 => Just(0.0f32), 1 => select(vec![-1.0f32, 0.5, 2.0, -100.0])],
            proptest::option::of(-4i32..8),
            proptest::option::of(-3i32..4),
            1u8..=6,
        )
            .prop_map(|(inputs, threshold, clip, adjust, threads)| {
                // one entry per chromosome per input; anchor some streams at base 0
                let inputs: Vec<Vec<(u8, Vec<V>)>> = inputs
                    .into_iter()
                    .map(|inp| {
                        let mut seen = vec![];
                        inp.into_iter()
                            .filter(|(c, v)| {
                                let keep = !seen.contains(c) && !v.is_empty();
                                seen.push(*c);
                                keep
                            })
                            .collect::<Vec<_>>()
                    })
                    .filter(|inp: &Vec<(u8, Vec<V>)>| !inp.is_empty())
                    .collect();
                Case::Tool { inputs, sizes: vec![400_000, 400_000, 400_000, 400_000], threshold, clip, adjust, threads }
            });
        prop_oneof![60 => merge, 20 => pair, 20 => fillc, 1 => tool].boxed()
    }
    fn fixed_cases(_tier: Tier) -> Vec<Case> {
        // the D7 shapes: a value starting at base 0, and every documented output name
        vec![Case::Tool {
            inputs: vec![
                vec![(0, vec![V { s: 0, e: 10, v: 1.0 }, V { s: 49_995, e: 50_010, v: 2.0 }]), (1, vec![V { s: 5, e: 9, v: 4.0 }])],
                vec![(0, vec![V { s: 0, e: 4, v: 0.5 }, V { s: 50_000, e: 50_003, v: -2.0 }])],
            ],
            sizes: vec![400_000; 4],
            threshold: 0.0,
            clip: None,
            adjust: None,
            threads: 2,
        },
        // scale: more inputs on one chromosome than the tool opens at once (it merges in groups of
        // < 1000 and then merges the partial results): clip, adjust and threshold still apply to the total
        many_inputs(1100, -1000.0, None, Some(1)),
        many_inputs(1100, 0.0, Some(40), None),
        many_inputs(240, -1000.0, Some(3), Some(-1)),
        // the same file listed twice counts twice (inputs are a list, not a set)
        Case::Tool {
            inputs: vec![
                vec![(0, vec![V { s: 0, e: 10, v: 1.5 }, V { s: 30, e: 35, v: 2.0 }])],
                vec![(0, vec![V { s: 5, e: 20, v: 4.0 }])],
                vec![(0, vec![V { s: 0, e: 10, v: 1.5 }, V { s: 30, e: 35, v: 2.0 }])],
            ],
            sizes: vec![1000; 4],
            threshold: 0.0,
            clip: None,
            adjust: None,
            threads: 255,
        }]
    }
    fn check(case: &Case, obs: &mut Obs) -> Result<(), String> {
        match case {
            Case::Merge { streams, dyadic } => {
                obs.label(if *dyadic { "merge-dyadic" } else { "merge-any-float" });
                obs.label(&format!("streams={}", streams.len()));
                let crossing: Vec<&V> = streams
                    .iter()
                    .flat_map(|s| s.iter())
                    .filter(|v| (v.s < WINDOW && v.e > WINDOW) || (v.s < 2 * WINDOW && v.e > 2 * WINDOW))
                    .collect();
                obs.label_if(!crossing.is_empty(), "value-crosses-window-boundary");
                let overlap_at_boundary = [WINDOW, 2 * WINDOW]
                    .iter()
                    .any(|b| streams.iter().filter(|s| s.iter().any(|v| v.s < *b && v.e > *b)).count() >= 2);
                obs.nontrivial = overlap_at_boundary;
                check_merge(streams, *dyadic)
            }
            Case::Pair { one, two } => {
                obs.label("merge_into");
                obs.nontrivial = one.v == 0.0 || two.v == 0.0 || one.s != two.s;
                if !(one.s < two.e && two.s < one.e) {
                    return Ok(()); // outside the documented precondition (no overlap)
                }
                check_pair(one, two)
            }
            Case::Fill { vals, start_to_end } => {
                obs.label(if start_to_end.is_some() { "fill_start_to_end" } else { "fill" });
                obs.nontrivial = vals.len() >= 2;
                check_fill(vals, *start_to_end)
            }
            Case::Tool { inputs, sizes, threshold, clip, adjust, threads } => {
                obs.label("tool");
                if inputs.is_empty() {
                    return Ok(());
                }
                obs.nontrivial = inputs.iter().any(|i| i.iter().any(|(_, v)| v.first().map(|x| x.s == 0).unwrap_or(false)));
                obs.label_if(obs.nontrivial, "tool-value-at-base-0");
                check_tool(inputs, sizes, *threshold, clip.map(|c| c as f32), adjust.map(|a| a as f32), *threads, obs)
            }
        }
    }
}
