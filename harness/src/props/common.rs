//! helpers shared by the property modules: read-back through the public reader API
use crate::model::*;
use crate::sink::MemFile;
use bigtools::{BigBedRead, BigWigRead, ChromInfo};

pub fn open_bw(bytes: Vec<u8>) -> Result<BigWigRead<MemFile>, String> {
    BigWigRead::open(MemFile::new(bytes)).map_err(|e| format!("BigWigRead::open failed: {}", e))
}
pub fn open_bb(bytes: Vec<u8>) -> Result<BigBedRead<MemFile>, String> {
    BigBedRead::open(MemFile::new(bytes)).map_err(|e| format!("BigBedRead::open failed: {}", e))
}

/// chromosome table = exactly `expected`, in that order, with those sizes
pub fn check_chrom_table(got: &[ChromInfo], expected: &[(String, u32)]) -> Result<(), String> {
    let g: Vec<(String, u32)> = got.iter().map(|c| (c.name.clone(), c.length)).collect();
    if g != expected {
        return Err(format!(
            "chromosome table differs: file lists {:?}, input had data for {:?} (first-appearance order)",
            g, expected
        ));
    }
    Ok(())
}

pub fn bw_expected_chroms(input: &BwInput) -> Vec<(String, u32)> {
    input.chroms.iter().map(|c| (c.name.clone(), c.size)).collect()
}
pub fn bb_expected_chroms(input: &BbInput) -> Vec<(String, u32)> {
    input.chroms.iter().map(|c| (c.name.clone(), c.size)).collect()
}

pub fn read_bw_full<R: bigtools::BBIFileRead>(
    r: &mut BigWigRead<R>,
    c: &BwChrom,
) -> Result<Vec<BwVal>, String> {
    let it = r
        .get_interval(&c.name, 0, c.size)
        .map_err(|e| format!("get_interval({:?},0,{}) failed: {}", c.name, c.size, e))?;
    let mut out = vec![];
    for v in it {
        let v = v.map_err(|e| format!("get_interval({:?},0,{}) item failed: {}", c.name, c.size, e))?;
        out.push(BwVal {
            s: v.start,
            e: v.end,
            v: v.value,
        });
    }
    Ok(out)
}

pub fn same_vals(a: &[BwVal], b: &[BwVal]) -> bool {
    a.len() == b.len()
        && a.iter()
            .zip(b.iter())
            .all(|(x, y)| x.s == y.s && x.e == y.e && x.v.to_bits() == y.v.to_bits())
}

pub fn first_diff_vals(got: &[BwVal], want: &[BwVal]) -> String {
    for i in 0..got.len().max(want.len()) {
        let g = got.get(i);
        let w = want.get(i);
        let same = match (g, w) {
            (Some(x), Some(y)) => x.s == y.s && x.e == y.e && x.v.to_bits() == y.v.to_bits(),
            _ => false,
        };
        if !same {
            return format!(
                "first difference at index {}: got {:?}, expected {:?} (got {} items, expected {})",
                i,
                g,
                w,
                got.len(),
                want.len()
            );
        }
    }
    "no difference".into()
}

pub fn read_bb_range<R: bigtools::BBIFileRead>(
    r: &mut BigBedRead<R>,
    name: &str,
    s: u32,
    e: u32,
) -> Result<Vec<BbEntry>, String> {
    let it = r
        .get_interval(name, s, e)
        .map_err(|er| format!("get_interval({:?},{},{}) failed: {}", name, s, e, er))?;
    let mut out = vec![];
    for v in it {
        let v = v.map_err(|er| format!("get_interval({:?},{},{}) item failed: {}", name, s, e, er))?;
        out.push(BbEntry {
            s: v.start,
            e: v.end,
            rest: v.rest,
        });
    }
    Ok(out)
}

pub fn first_diff_entries(got: &[BbEntry], want: &[BbEntry]) -> String {
    for i in 0..got.len().max(want.len()) {
        if got.get(i) != want.get(i) {
            return format!(
                "first difference at index {}: got {:?}, expected {:?} (got {} entries, expected {})",
                i,
                got.get(i),
                want.get(i),
                got.len(),
                want.len()
            );
        }
    }
    "no difference".into()
}

pub fn sections(n: usize, items_per_slot: u32) -> usize {
    (n + items_per_slot as usize - 1) / items_per_slot as usize
}

pub fn label_shape_bw(input: &BwInput, o: &Opts, obs: &mut crate::runner::Obs) -> (usize, usize) {
    let max_sections = input
        .chroms
        .iter()
        .map(|c| sections(c.vals.len(), o.items_per_slot))
        .max()
        .unwrap_or(0);
    let total_sections: usize = input
        .chroms
        .iter()
        .map(|c| sections(c.vals.len(), o.items_per_slot))
        .sum();
    let depth = index_depth(total_sections, o.block_size);
    obs.label(&format!("chroms={}", input.chroms.len().min(7)));
    obs.label_if(max_sections >= 2, "multi-section-chrom");
    obs.label(&format!("index-levels={}", depth.min(4)));
    obs.label_if(input.chroms.iter().any(|c| c.has_zero_length()), "zero-length-item");
    obs.label_if(
        input.chroms.iter().any(|c| c.vals.first().map(|v| v.s == 0).unwrap_or(false)),
        "touches-0",
    );
    obs.label_if(
        input.chroms.iter().any(|c| c.vals.last().map(|v| v.e == c.size).unwrap_or(false)),
        "touches-chrom-end",
    );
    obs.label_if(input.chroms.iter().any(|c| c.size > i32::MAX as u32), "coordinates-beyond-2^31");
    obs.label_if(!input.unused.is_empty(), "unused-size-entries");
    obs.label_if(input.chroms.iter().any(|c| c.size > 1_000_000_000), "huge-chrom");
    (max_sections, depth)
}
