//! C11 — output bytes do not depend on threads, buffering or task timing
use super::common::*;
use crate::drive;
use crate::gen;
use crate::model::*;
use crate::runner::{mark_progress, Obs, Prop, Tier};
use crate::sink::{MemFile, SharedSink};
use proptest::prelude::*;
use proptest::sample::select;
use serde::{Deserialize, Serialize};
use std::io::{Read, Seek, SeekFrom};

#[derive(Serialize, Deserialize, Clone, Debug)]
pub enum Base {
    Bw(BwInput),
    Bb(BbInput),
}

#[derive(Serialize, Deserialize, Clone, Debug)]
pub struct Variant {
    pub threads: u8,
    pub channel_size: usize,
    pub inmemory: bool,
    pub source: SourceKind,
    pub delay_seed: u64,
    pub intensity: u8,
    /// multi-threaded converter: worker threads (2..=16) and buffering mode
    pub conv_threads: u8,
    pub conv_inmemory: bool,
    /// hold the consumer side (the switch to the real file) back so that producers stage data first
    #[serde(default)]
    pub bias_consumer: bool,
}

#[derive(Serialize, Deserialize, Clone, Debug)]
pub struct Case {
    pub base: Base,
    /// format options (compress, items_per_slot, block_size, zooms, pass mode) — equal on both sides
    pub fmt: Opts,
    pub variant: Variant,
    /// Some: the same comparison through the command-line tools (`fmt` / `variant` unused)
    #[serde(default)]
    pub cli: Option<CliCfg>,
}

#[derive(Serialize, Deserialize, Clone, Debug)]
pub struct CliCfg {
    // format flags, equal on both sides
    pub single_pass: bool,
    pub uncompressed: bool,
    pub block_size: Option<u32>,
    pub zooms: Option<Vec<u32>>,
    // variant side
    pub threads: u8,
    pub parallel: u8, // 0 auto, 1 yes, 2 no
    pub inmemory: bool,
    pub back_threads: u8,
    pub back_inmemory: bool,
    pub delay: Option<(u32, u8)>,
}

pub struct C11;

#[cfg(bigtools_verif)]
fn set_schedule(seed: u64, intensity: u32) {
    bigtools::utils::verif_hooks::set_schedule(seed, intensity);
    bigtools::utils::verif_hooks::reset_counters();
}
#[cfg(not(bigtools_verif))]
fn set_schedule(_seed: u64, _intensity: u32) {}
#[cfg(bigtools_verif)]
fn set_bias(mask: u64) {
    bigtools::utils::verif_hooks::set_bias(mask);
}
#[cfg(not(bigtools_verif))]
fn set_bias(_mask: u64) {}
#[cfg(bigtools_verif)]
fn counters() -> Vec<u64> {
    bigtools::utils::verif_hooks::counters()
}
#[cfg(not(bigtools_verif))]
fn counters() -> Vec<u64> {
    vec![0; 48]
}

fn read_all(mut f: std::fs::File) -> Vec<u8> {
    let mut v = vec![];
    let _ = f.seek(SeekFrom::Start(0));
    let _ = f.read_to_end(&mut v);
    v
}

fn first_diff(a: &[u8], b: &[u8]) -> usize {
    a.iter().zip(b.iter()).position(|(x, y)| x != y).unwrap_or(a.len().min(b.len()))
}

fn tmp() -> std::fs::File {
    tempfile::tempfile_in(std::env::var("VERIF_TMP").unwrap_or_else(|_| std::env::temp_dir().to_string_lossy().to_string()))
        .expect("temp file")
}

impl Prop for C11 {
    type Case = Case;
    const ID: &'static str = "C11";
    fn rule() -> String {
        "a multi-chromosome C01/C02 input, one set of format options, and a configuration pair: reference = (current-thread runtime, in-memory buffering, serial iterator source, no delays), \
         variant = generated (runtime flavour and 1..16 threads, channel size {0,1,100}, inmemory {f,t}, one of four source kinds incl. the per-chromosome parallel one, a seeded delay schedule for the cfg(bigtools_verif) hand-off points); \
         oracle: the two destinations hold identical bytes (nothing about the bytes themselves is asserted). Then the variant file is converted to text by the single-threaded and by the multi-threaded converter \
         (2..16 threads, both buffering modes, delays on): identical text. \
         One case in six runs the same comparison through the real binaries: bedgraphtobigwig / bedtobigbed `-t 1 --parallel=no` against `-t 2..16 --parallel=auto|yes|no [--inmemory]` under BIGTOOLS_VERIF_DELAY with equal format flags (identical bytes), then bigwigtobedgraph / bigbedtobed `-t 1` against `-t 2..16 [--inmemory]` (identical text). \
         non-trivial = (command-line cases: >= 3 chromosomes, --parallel=yes, delays on) >= 3 chromosomes AND multi-thread runtime AND delays on AND the hook counters saw both a switch before the producer's first write and a switch after data had been staged (while the producer was still writing, or after it had finished); distinct = distinct case JSON"
            .into()
    }
    fn technique() -> String {
        "differential testing across configurations and seeded schedule perturbation (delay injection at hand-off points), generated inputs".into()
    }
    fn assumptions() -> Vec<String> {
        vec![
            "interleavings are sampled by seeded delays at the hooked hand-off points, not enumerated".into(),
            "pass mode (single / two pass) is a format option and is held equal inside a pair".into(),
        ]
    }
    fn cases(tier: Tier) -> u64 {
        tier.pick(3000, 20_000)
    }
    fn strategy(tier: Tier) -> BoxedStrategy<Case> {
        let variant = (
            prop_oneof![1 => Just(0u8), 1 => Just(1u8), 4 => 2u8..=16],
            select(vec![0usize, 1, 100]),
            any::<bool>(),
            gen::source_kind(),
            any::<u64>(),
            prop_oneof![1 => Just(0u8), 4 => 20u8..=100],
            2u8..=16,
            any::<bool>(),
            any::<bool>(),
        )
            .prop_map(|(threads, channel_size, inmemory, source, delay_seed, intensity, conv_threads, conv_inmemory, bias_consumer)| Variant {
                threads,
                channel_size,
                inmemory,
                source,
                delay_seed,
                intensity,
                conv_threads,
                conv_inmemory,
                bias_consumer,
            });
        let mi = tier.pick(60, 200);
        let bw = (gen::opts(false), variant.clone())
            .prop_flat_map(move |(o, v)| (gen::bw_input(12, mi, o.sorted_chroms), Just(o), Just(v)))
            .prop_map(|(mut input, mut o, v)| {
                for c in input.chroms.iter_mut() {
                    gen::exclude_k1(c);
                }
                let bases: u64 = input.chroms.iter().map(|c| c.vals.iter().map(|v| (v.e - v.s) as u64).sum::<u64>()).sum();
                gen::tame_zooms(bases, input.n_items() as u64, &mut o, 1500);
                Case { base: Base::Bw(input), fmt: o, variant: v, cli: None }
            });
        let bb = (gen::opts(false), variant)
            .prop_flat_map(move |(o, v)| (gen::bb_input(12, mi, o.sorted_chroms, true), Just(o), Just(v)))
            .prop_map(|(mut input, mut o, v)| {
                for c in input.chroms.iter_mut() {
                    gen::exclude_k2(c);
                }
                input.autosql = None;
                let bases: u64 = input.chroms.iter().map(|c| c.entries.iter().map(|v| (v.e - v.s) as u64).sum::<u64>()).sum();
                gen::tame_zooms(bases, input.n_items() as u64, &mut o, 1500);
                Case { base: Base::Bb(input), fmt: o, variant: v, cli: None }
            });
        let clicfg = (
            (any::<bool>(), any::<bool>(), proptest::option::of(select(vec![2u32, 3, 16, 256])), proptest::option::of(proptest::sample::subsequence(vec![5u32, 10, 40, 160, 1000], 1..=3))),
            (2u8..=16, 0u8..3, any::<bool>(), 2u8..=16, any::<bool>(), proptest::option::weighted(0.8, (any::<u32>(), 30u8..=100))),
        )
            .prop_map(|((single_pass, uncompressed, block_size, zooms), (threads, parallel, inmemory, back_threads, back_inmemory, delay))| CliCfg {
                single_pass,
                uncompressed,
                block_size,
                zooms,
                threads,
                parallel,
                inmemory,
                back_threads,
                back_inmemory,
                delay,
            });
        let any_variant = Variant {
            threads: 0,
            channel_size: 100,
            inmemory: true,
            source: SourceKind::Infallible,
            delay_seed: 0,
            intensity: 0,
            conv_threads: 2,
            conv_inmemory: true,
            bias_consumer: false,
        };
        let v1 = any_variant.clone();
        let cli_bw = (super::c16::canonical_bw(8, 60), clicfg.clone())
            .prop_map(move |(b, c)| Case { base: Base::Bw(b), fmt: Opts::default(), variant: v1.clone(), cli: Some(c) });
        let cli_bb = (super::c16::canonical_bb(8, 60), clicfg)
            .prop_map(move |(b, c)| Case { base: Base::Bb(b), fmt: Opts::default(), variant: any_variant.clone(), cli: Some(c) });
        prop_oneof![5 => bw, 5 => bb, 1 => cli_bw, 1 => cli_bb].boxed()
    }
    fn fixed_cases(_tier: Tier) -> Vec<Case> {
        // uncompressed streams of round byte lengths through the temporary-file staging: N zoom records of
        // 32 bytes at the first automatic level (contiguous 10-base values, resolution 160), two chromosomes
        let mut v = vec![];
        // values whose text differs although they compare equal (0.0 / -0.0), repeated values, extremes
        {
            let pattern = [0.0f32, -0.0, 0.0, 1.5, 1.5, -0.0, -0.0, 0.0, f32::MAX, f32::MAX, f32::MIN_POSITIVE, -f32::MIN_POSITIVE, 1e-40, -1e-40];
            let chroms: Vec<BwChrom> = (0..3)
                .map(|c| BwChrom {
                    name: format!("chr{}", c + 1),
                    size: 1000,
                    vals: pattern.iter().cycle().skip(c).take(40).enumerate().map(|(i, x)| BwVal { s: i as u32 * 10, e: i as u32 * 10 + 10, v: *x }).collect(),
                })
                .collect();
            v.push(Case {
                base: Base::Bw(BwInput { chroms, unused: vec![] }),
                fmt: Opts::default(),
                variant: Variant { threads: 3, channel_size: 100, inmemory: false, source: SourceKind::SerialText, delay_seed: 0, intensity: 0, conv_threads: 4, conv_inmemory: true, bias_consumer: false },
                cli: None,
            });
        }
        for n_records in [256u32, 2000, 2048, 4096] {
            for multipass in [false, true] {
                let per_chrom = n_records * 8;
                let chroms: Vec<BwChrom> = (0..2)
                    .map(|c| BwChrom {
                        name: format!("chr{}", c + 1),
                        size: per_chrom * 10,
                        vals: (0..per_chrom).map(|i| BwVal { s: i * 10, e: i * 10 + 10, v: ((i + c) % 13) as f32 }).collect(),
                    })
                    .collect();
                let mut fmt = Opts::default();
                fmt.compress = false;
                fmt.multipass = multipass;
                fmt.zoom = ZoomSpec::Auto { initial: 160, max: 10 };
                v.push(Case {
                    base: Base::Bw(BwInput { chroms, unused: vec![] }),
                    fmt,
                    variant: Variant {
                        threads: 2,
                        channel_size: 100,
                        inmemory: false,
                        source: SourceKind::Infallible,
                        delay_seed: 0,
                        intensity: 0,
                        conv_threads: 3,
                        conv_inmemory: false,
                        bias_consumer: false,
                    },
                    cli: None,
                });
            }
        }
        v
    }
    fn check(case: &Case, obs: &mut Obs) -> Result<(), String> {
        if let Some(cfg) = &case.cli {
            return check_cli(case, cfg, obs);
        }
        let v = &case.variant;
        let mut ref_o = case.fmt.clone();
        ref_o.threads = 0;
        ref_o.inmemory = true;
        ref_o.source = SourceKind::Infallible;
        ref_o.channel_size = 100;
        let mut var_o = case.fmt.clone();
        var_o.threads = v.threads;
        var_o.inmemory = v.inmemory;
        var_o.source = v.source;
        var_o.channel_size = v.channel_size;
        gen::label_opts(&var_o, obs);
        let n_chroms = match &case.base {
            Base::Bw(i) => i.chroms.len(),
            Base::Bb(i) => i.chroms.len(),
        };
        obs.label(&format!("chroms={}", n_chroms.min(12)));
        obs.label_if(v.intensity > 0, "delays-on");
        obs.label(if matches!(case.base, Base::Bw(_)) { "bigwig" } else { "bigbed" });

        set_schedule(0, 0);
        mark_progress();
        let rs = SharedSink::new();
        let r1 = match &case.base {
            Base::Bw(i) => drive::write_bw(i, &ref_o, rs.clone()),
            Base::Bb(i) => drive::write_bb(i, &ref_o, rs.clone()),
        };
        if let Err(e) = r1 {
            obs.label("writer-refused");
            obs.notes.push(format!("writer refused generated input: {}", e));
            return Ok(());
        }
        set_schedule(v.delay_seed, v.intensity as u32);
        // sites 4, 7, 9, 11, 15, 17: the consumer's switch to the real file
        set_bias(if v.bias_consumer && v.intensity > 0 { (1 << 4) | (1 << 7) | (1 << 9) | (1 << 11) | (1 << 15) | (1 << 17) } else { 0 });
        obs.label_if(v.bias_consumer && v.intensity > 0, "consumer-held-back");
        mark_progress();
        let vs = SharedSink::new();
        let r2 = match &case.base {
            Base::Bw(i) => drive::write_bw(i, &var_o, vs.clone()),
            Base::Bb(i) => drive::write_bb(i, &var_o, vs.clone()),
        };
        let c = counters();
        set_schedule(0, 0);
        if let Err(e) = r2 {
            return Err(format!(
                "the reference configuration wrote the file, the variant configuration ({:?}) failed: {}",
                v, e
            ));
        }
        let (a, b) = (rs.bytes(), vs.bytes());
        obs.evals += 1;
        if a != b {
            return Err(format!(
                "output bytes differ between the reference configuration and {:?}: {} vs {} bytes, first difference at offset {}",
                v,
                a.len(),
                b.len(),
                first_diff(&a, &b)
            ));
        }
        let before_first = c[20] > 0;
        let after_staged = c[21] + c[22] > 0;
        let after_closed = c[23] + c[24] > 0;
        obs.label_if(after_closed, "switch-after-producer-finished-with-staged-data");
        obs.label_if(before_first, "switch-before-first-write");
        obs.label_if(after_staged, "switch-after-staged-data");
        obs.nontrivial = n_chroms >= 3 && v.threads >= 1 && v.intensity > 0 && before_first && (after_staged || after_closed);

        // converters: single-threaded text vs multi-threaded text
        mark_progress();
        let single = tmp();
        let multi = tmp();
        let s2 = single.try_clone().map_err(|e| e.to_string())?;
        let m2 = multi.try_clone().map_err(|e| e.to_string())?;
        set_schedule(v.delay_seed ^ 0x55, v.intensity as u32);
        let conv = match &case.base {
            Base::Bw(_) => {
                let r = open_bw(b.clone())?;
                bigtools::utils::cli::bigwigtobedgraph::write_bg_singlethreaded(r, single, None, None, None)
                    .map_err(|e| format!("single-threaded bigWig->bedGraph failed: {}", e))?;
                let r = open_bw(b)?;
                bigtools::utils::cli::bigwigtobedgraph::write_bg(r, multi, v.conv_inmemory, v.conv_threads as usize)
                    .map_err(|e| format!("multi-threaded bigWig->bedGraph failed: {}", e))
            }
            Base::Bb(_) => {
                let r = open_bb(b.clone())?;
                bigtools::utils::cli::bigbedtobed::write_bed_singlethreaded(r, single, None, None, None, None)
                    .map_err(|e| format!("single-threaded bigBed->bed failed: {}", e))?;
                let r = open_bb(b)?;
                bigtools::utils::cli::bigbedtobed::write_bed(r, multi, v.conv_inmemory, v.conv_threads as usize)
                    .map_err(|e| format!("multi-threaded bigBed->bed failed: {}", e))
            }
        };
        set_schedule(0, 0);
        set_bias(0);
        conv?;
        let (ts, tm) = (read_all(s2), read_all(m2));
        obs.evals += 1;
        if ts != tm {
            return Err(format!(
                "the {}-thread converter (inmemory={}) emits different text than the single-threaded path: {} vs {} bytes, first difference at offset {}",
                v.conv_threads,
                v.conv_inmemory,
                tm.len(),
                ts.len(),
                first_diff(&ts, &tm)
            ));
        }
        let _ = MemFile::new(vec![]);
        Ok(())
    }
}

/// reference `-t 1 --parallel=no` against a generated thread / parallel / buffering configuration
/// of the real converters, equal format flags on both sides: identical bytes; then the file back to
/// text with `-t 1` and with `-t N`: identical text
fn check_cli(case: &Case, cfg: &CliCfg, obs: &mut Obs) -> Result<(), String> {
    use super::cli::{bindir, run_tool, tmpdir};
    if bindir().is_none() {
        obs.label("tool-binaries-missing");
        return Err("the command-line binaries are not built (VERIF_BIN): ./check builds them".into());
    }
    let dir = tmpdir("c11_")?;
    let p = |n: &str| dir.path().join(n).to_string_lossy().to_string();
    let is_bw = matches!(case.base, Base::Bw(_));
    let (text, sizes, nchroms): (String, String, usize) = match &case.base {
        Base::Bw(i) => (
            drive::bw_text(&drive::bw_items(i)).0,
            i.chroms.iter().map(|c| format!("{}\t{}\n", c.name, c.size)).collect(),
            i.chroms.len(),
        ),
        Base::Bb(i) => (
            drive::bb_text(&drive::bb_items(i)).0,
            i.chroms.iter().map(|c| format!("{}\t{}\n", c.name, c.size)).collect(),
            i.chroms.len(),
        ),
    };
    std::fs::write(p("in.txt"), &text).map_err(|e| e.to_string())?;
    std::fs::write(p("sizes"), &sizes).map_err(|e| e.to_string())?;
    let mut fmt: Vec<String> = vec![];
    if cfg.single_pass {
        fmt.push("--single-pass".into());
    }
    if cfg.uncompressed {
        fmt.push("--uncompressed".into());
    }
    if let Some(b) = cfg.block_size {
        fmt.push(format!("--block-size={}", b));
    }
    if let Some(z) = &cfg.zooms {
        fmt.push(format!("--zooms={}", z.iter().map(|x| x.to_string()).collect::<Vec<_>>().join(",")));
    }
    let par = ["auto", "yes", "no"][cfg.parallel as usize % 3];
    obs.label("cli");
    obs.label(&format!("cli-parallel={}", par));
    obs.label(&format!("chroms={}", nchroms.min(12)));
    obs.label(if is_bw { "bigwig" } else { "bigbed" });
    obs.label_if(cfg.delay.is_some(), "delays-on");
    let env: Vec<(String, String)> = match cfg.delay {
        Some((s, i)) => vec![("BIGTOOLS_VERIF_DELAY".to_string(), format!("{}:{}", s, i))],
        None => vec![],
    };
    let fwd = if is_bw { "bedgraphtobigwig" } else { "bedtobigbed" };
    let mut a1: Vec<String> = vec![p("in.txt"), p("sizes"), p("ref.out"), "-t".into(), "1".into(), "--parallel=no".into()];
    a1.extend(fmt.iter().cloned());
    let r1 = run_tool(fwd, &a1, &[], 120)?;
    if r1.timed_out {
        return Err(format!("{} {:?} did not finish in 120 s", fwd, &a1[3..]));
    }
    if r1.code != Some(0) {
        obs.label("writer-refused");
        obs.notes.push(format!("{} refused the generated text: {}", fwd, r1.stderr.lines().next().unwrap_or("")));
        return Ok(());
    }
    let mut a2: Vec<String> = vec![p("in.txt"), p("sizes"), p("var.out"), "-t".into(), cfg.threads.to_string(), format!("--parallel={}", par)];
    if cfg.inmemory {
        a2.push("--inmemory".into());
    }
    a2.extend(fmt.iter().cloned());
    let r2 = run_tool(fwd, &a2, &env, 120)?;
    if r2.timed_out {
        return Err(format!("{} {:?} did not finish in 120 s", fwd, &a2[3..]));
    }
    if r2.code != Some(0) {
        return Err(format!(
            "{} wrote the file with -t 1 --parallel=no but failed with {:?} (status {:?}): {}",
            fwd,
            &a2[3..],
            r2.code,
            r2.stderr.lines().next().unwrap_or("")
        ));
    }
    let a = std::fs::read(p("ref.out")).map_err(|e| format!("reference output unreadable: {}", e))?;
    let b = std::fs::read(p("var.out")).map_err(|e| format!("variant output unreadable: {}", e))?;
    obs.evals += 1;
    if a != b {
        return Err(format!(
            "{}: output bytes differ between `-t 1 --parallel=no` and {:?} (same format flags {:?}): {} vs {} bytes, first difference at offset {}",
            fwd,
            &a2[3..],
            fmt,
            a.len(),
            b.len(),
            first_diff(&a, &b)
        ));
    }
    let back = if is_bw { "bigwigtobedgraph" } else { "bigbedtobed" };
    let b1: Vec<String> = vec![p("var.out"), p("single.txt"), "-t".into(), "1".into()];
    let mut b2: Vec<String> = vec![p("var.out"), p("multi.txt"), "-t".into(), cfg.back_threads.to_string()];
    if cfg.back_inmemory {
        b2.push("--inmemory".into());
    }
    let s1 = run_tool(back, &b1, &[], 120)?;
    let s2 = run_tool(back, &b2, &env, 120)?;
    if s1.timed_out || s2.timed_out {
        return Err(format!("{} did not finish in 120 s ({:?})", back, &b2[2..]));
    }
    if s1.code != Some(0) || s2.code != Some(0) {
        return Err(format!(
            "{} failed on a file the writer produced: -t 1 status {:?}, {:?} status {:?}: {} {}",
            back,
            s1.code,
            &b2[2..],
            s2.code,
            s1.stderr.lines().next().unwrap_or(""),
            s2.stderr.lines().next().unwrap_or("")
        ));
    }
    let ts = std::fs::read(p("single.txt")).map_err(|e| e.to_string())?;
    let tm = std::fs::read(p("multi.txt")).map_err(|e| e.to_string())?;
    obs.evals += 1;
    if ts != tm {
        return Err(format!(
            "{} {:?} emits different text than -t 1: {} vs {} bytes, first difference at offset {}",
            back,
            &b2[2..],
            tm.len(),
            ts.len(),
            first_diff(&ts, &tm)
        ));
    }
    obs.nontrivial = nchroms >= 3 && cfg.delay.is_some() && cfg.parallel % 3 == 1;
    Ok(())
}
