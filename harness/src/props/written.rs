//! oracles over a written file that several properties share (summary, zoom levels, decoded content)
use crate::indep::decode::{Decoded, ZoomRec};
use crate::model::*;

pub fn zrecs(blocks: &[Vec<ZoomRec>]) -> Vec<ZRec> {
    blocks
        .iter()
        .flat_map(|b| b.iter())
        .map(|z| ZRec {
            chrom: z.chrom,
            start: z.start,
            end: z.end,
            valid: z.valid as u64,
            min: z.min as f64,
            max: z.max as f64,
            sum: z.sum as f64,
            sumsq: z.sumsq as f64,
        })
        .collect()
}

/// total summary vs model statistics. `zl` = values of zero-length items (may take part in min/max).
pub fn check_total_summary(
    got: (u64, f64, f64, f64, f64),
    st: &Stats,
    zl: &[f64],
    exact: bool,
) -> Result<(), String> {
    let (bases, min, max, sum, sumsq) = got;
    if bases != st.bases {
        return Err(format!("total summary: bases covered = {}, data covers {}", bases, st.bases));
    }
    if st.bases == 0 {
        // nothing has positive length: min/max are not defined by the statement
        if sum != 0.0 || sumsq != 0.0 {
            return Err(format!("total summary: no covered bases but sum {} / sumsq {}", sum, sumsq));
        }
        return Ok(());
    }
    // `zl` holds the values zero-length items may contribute to an extremum (DESIGN 1.4 rule 2);
    // a pair (lo, hi) with lo < hi given as two consecutive NaN-tagged entries is not used — for
    // bigBed depth the caller passes every admissible integer explicitly.
    let min_ok = min == st.min || zl.iter().any(|z| *z == min && *z < st.min);
    let max_ok = max == st.max || zl.iter().any(|z| *z == max && *z > st.max);
    if !min_ok {
        return Err(format!("total summary: min = {}, data minimum is {}", min, st.min));
    }
    if !max_ok {
        return Err(format!("total summary: max = {}, data maximum is {}", max, st.max));
    }
    if exact {
        if sum != st.sum || sumsq != st.sumsq {
            return Err(format!(
                "total summary: sum = {} / sumsq = {}, data gives {} / {}",
                sum, sumsq, st.sum, st.sumsq
            ));
        }
    } else {
        if !close_f64(sum, st.sum, st.abs_sum) {
            return Err(format!("total summary: sum = {}, data sums to {}", sum, st.sum));
        }
        if !close_f64(sumsq, st.sumsq, st.abs_sumsq) {
            return Err(format!("total summary: sum of squares = {}, data gives {}", sumsq, st.sumsq));
        }
    }
    Ok(())
}

pub fn bw_signals(input: &BwInput) -> Vec<ChromSignal> {
    input.chroms.iter().enumerate().map(|(i, c)| bw_signal(c, i as u32)).collect()
}
pub fn bb_signals(input: &BbInput) -> Vec<ChromSignal> {
    input.chroms.iter().enumerate().map(|(i, c)| bb_signal(c, i as u32)).collect()
}

pub fn bw_zero_len_vals(input: &BwInput) -> Vec<f64> {
    input
        .chroms
        .iter()
        .flat_map(|c| c.vals.iter())
        .filter(|v| v.s == v.e)
        .map(|v| v.v as f64)
        .collect()
}

/// zoom directory of a decoded file against the option set: strictly increasing, manual ⊆ requested
pub fn check_zoom_directory(d: &Decoded, o: &Opts) -> Result<(), String> {
    let levels: Vec<u32> = d.zooms.iter().map(|z| z.reduction).collect();
    if levels.windows(2).any(|w| w[0] >= w[1]) {
        return Err(format!("zoom levels not strictly increasing: {:?}", levels));
    }
    if let ZoomSpec::Manual(req) = &o.zoom {
        for l in &levels {
            if !req.contains(l) {
                return Err(format!("zoom level {} was not requested (manual list {:?})", l, req));
            }
        }
    }
    Ok(())
}

pub fn check_all_zoom_levels(d: &Decoded, signals: &[ChromSignal]) -> Result<usize, String> {
    let mut n = 0;
    for z in &d.zooms {
        let recs = zrecs(&z.blocks);
        n += recs.len();
        zoom_level_check(z.reduction, &recs, signals).map_err(|e| format!("zoom level {}: {}", z.reduction, e))?;
    }
    Ok(n)
}

/// chromosome tree content: exactly the chromosomes with data, ids in first-appearance order,
/// supplied sizes; keys ascending (only asserted for sorted input)
pub fn check_decoded_chroms(d: &Decoded, expected: &[(String, u32)], sorted: bool) -> Result<(), String> {
    let mut by_id: Vec<(String, u32, u32)> = d.chroms.clone();
    by_id.sort_by_key(|c| c.1);
    let got: Vec<(String, u32)> = by_id.iter().map(|c| (c.0.clone(), c.2)).collect();
    if got != expected {
        return Err(format!(
            "decoded chromosome table (by id) {:?} differs from the chromosomes with data {:?}",
            got, expected
        ));
    }
    if sorted {
        let keys: Vec<&String> = d.chroms.iter().map(|c| &c.0).collect();
        if keys.windows(2).any(|w| w[0].as_bytes() >= w[1].as_bytes()) {
            return Err(format!("chromosome tree keys are not in ascending order: {:?}", keys));
        }
    }
    Ok(())
}

pub fn check_decoded_bw_content(d: &Decoded, input: &BwInput) -> Result<(), String> {
    for (i, c) in input.chroms.iter().enumerate() {
        let got: Vec<BwVal> = d
            .bw_blocks
            .iter()
            .filter(|b| b.chrom == i as u32)
            .flat_map(|b| b.items.iter())
            .map(|it| BwVal { s: it.0, e: it.1, v: it.2 })
            .collect();
        if !super::common::same_vals(&got, &c.vals) {
            return Err(format!(
                "independently decoded records of {:?} differ from the input: {}",
                c.name,
                super::common::first_diff_vals(&got, &c.vals)
            ));
        }
    }
    if d.bw_blocks.iter().any(|b| b.chrom as usize >= input.chroms.len()) {
        return Err("decoded block for a chromosome id that had no data".into());
    }
    Ok(())
}

pub fn check_decoded_bb_content(d: &Decoded, input: &BbInput) -> Result<(), String> {
    for (i, c) in input.chroms.iter().enumerate() {
        let got: Vec<BbEntry> = d
            .bb_blocks
            .iter()
            .flat_map(|b| b.iter())
            .filter(|it| it.chrom == i as u32)
            .map(|it| BbEntry {
                s: it.start,
                e: it.end,
                rest: String::from_utf8_lossy(&it.rest).to_string(),
            })
            .collect();
        if got != c.entries {
            return Err(format!(
                "independently decoded entries of {:?} differ from the input: {}",
                c.name,
                super::common::first_diff_entries(&got, &c.entries)
            ));
        }
    }
    Ok(())
}

/// bigBed: a zero-length entry covers no base, so it takes no part in the depth statistics
/// (the summary sweep once let zero-length segments raise the maximum — defect D12, fixed).
pub fn bb_zero_len_slack(_input: &BbInput, _st: &Stats) -> Vec<f64> {
    vec![]
}
