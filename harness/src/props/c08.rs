//! C08 — bigBed zoom levels are faithful reductions of coverage depth
use super::common::*;
use super::written::*;
use super::zoomq::check_zoom_levels;
use super::c02;
use crate::drive;
use crate::gen;
use crate::indep::decode;
use crate::model::*;
use crate::runner::{Obs, Prop, Tier};
use crate::sink::SharedSink;
use proptest::prelude::*;

pub struct C08;

impl Prop for C08 {
    type Case = c02::Case;
    const ID: &'static str = "C08";
    fn rule() -> String {
        "C02 inputs (no extra columns; disjoint, overlapping, nested, identical, zero-length entries; gaps of every size) with small resolutions, both pass modes; \
         every level read through get_zoom_interval and by the independent decoder (must agree) and judged by the zoom oracle over the depth function \
         (independent +1/-1 sweep): order, disjoint, <= resolution, every covered base in exactly one record, covered/min/max/sum/sumsq; zoom range queries. \
         non-trivial = a record whose minimum depth is >= 2, OR a record containing both a depth change and an internal gap"
            .into()
    }
    fn technique() -> String {
        "property-based testing against a reference model + differential (reader vs independent decoder)".into()
    }
    fn assumptions() -> Vec<String> {
        vec!["depth statistics stay far below 2^24 so f32 holds them exactly".into()]
    }
    fn cases(tier: Tier) -> u64 {
        tier.pick(5000, 25_000)
    }
    fn strategy(tier: Tier) -> BoxedStrategy<c02::Case> {
        gen::bb_case(tier, true, false).prop_map(c02::make_case).boxed()
    }
    fn check(c: &c02::Case, obs: &mut Obs) -> Result<(), String> {
        gen::label_opts(&c.opts, obs);
        c02::label_shape_bb(&c.input, &c.opts, obs);
        let sink = SharedSink::new();
        if let Err(e) = drive::write_bb(&c.input, &c.opts, sink.clone()) {
            obs.label("writer-refused");
            obs.notes.push(format!("writer refused generated input: {}", e));
            return Ok(());
        }
        let bytes = sink.bytes();
        let d = decode::decode(&bytes).map_err(|e| format!("independent decoder rejects the file: {}", e))?;
        let mut r = open_bb(bytes)?;
        let names = bb_expected_chroms(&c.input);
        let signals = bb_signals(&c.input);
        let levels = check_zoom_levels(&mut r, &d, &c.opts, &signals, &names, obs)?;
        obs.label(&format!("zoom-levels={}", levels.len().min(6)));
        // non-triviality
        let mut min2 = false;
        let mut change_and_gap = false;
        for (_res, recs) in &levels {
            for z in recs {
                if z.valid > 0 && z.min >= 2.0 {
                    min2 = true;
                }
                if let Some(sig) = signals.get(z.chrom as usize) {
                    let inside: Vec<&(u32, u32, f64)> =
                        sig.runs.iter().filter(|r| r.0 < z.end && r.1 > z.start).collect();
                    let change = inside.windows(2).any(|w| w[0].2 != w[1].2);
                    let gap = inside.windows(2).any(|w| w[0].1 < w[1].0);
                    if change && gap {
                        change_and_gap = true;
                    }
                }
            }
        }
        obs.label_if(min2, "record-min-depth>=2");
        obs.label_if(change_and_gap, "record-with-depth-change-and-gap");
        obs.nontrivial = min2 || change_and_gap;
        Ok(())
    }
}
