//! C13 — unrepresentable input is refused with an error, and every write call terminates
use super::common::*;
use crate::drive;
use crate::gen;
use crate::model::*;
use crate::runner::{Obs, Prop, Tier};
use crate::sink::SharedSink;
use bigtools::{BedEntry, Value};
use proptest::prelude::*;
use proptest::sample::select;
use serde::{Deserialize, Serialize};
use std::collections::HashMap;

#[derive(Serialize, Deserialize, Clone, Copy, Debug, PartialEq)]
pub enum Inject {
    /// valid input (possibly degenerate): the call must return; if Ok the file must read back
    None,
    /// bigWig: a value that starts before its predecessor
    BwOutOfOrder,
    /// bigWig: a value that overlaps its predecessor
    BwOverlap,
    /// bigWig: predecessor (0,4) followed by an offender of a given shape (see OVERLAP_SHAPES):
    /// zero-length at the predecessor's start / inside it, nested, identical, ending inside ...
    BwOverlapShape(u8),
    StartGtEnd,
    /// bigWig: end beyond the chromosome
    BwEndGtSize,
    /// bigBed: start smaller than the predecessor's start
    BbStartOrder,
    /// bigBed: start at or beyond the chromosome length
    BbStartGeSize,
    UnknownChrom,
    /// chromosomes out of order while sorted input is required
    ChromOrder,
    NonNumeric,
    MissingColumn,
    Negative,
    /// a coordinate of 2^32 or more (2^64 or more for one shape) that equals the valid coordinate modulo 2^32 / 2^64:
    /// a parser that wraps instead of refusing sees a perfectly valid line
    BeyondU32,
    Blank,
    Empty,
    /// a complete, otherwise valid record behind leading white space (the chromosome column is then
    /// " name" / empty: an unknown chromosome or a shifted line)
    LeadingSpace,
    LeadingTab,
    /// bigWig: the chromosome's last item is empty and lies wholly beyond the chromosome end
    BwEmptyBeyondEnd,
}

#[derive(Serialize, Deserialize, Clone, Copy, Debug, PartialEq)]
pub enum Degenerate {
    No,
    OnlyZeroLength,
    OneItem,
    OnlyAtZero,
    OnlyAtEnd,
    OneChromAllZeroLength,
}

#[derive(Serialize, Deserialize, Clone, Debug)]
pub enum Base {
    Bw(BwInput),
    Bb(BbInput),
}

#[derive(Serialize, Deserialize, Clone, Debug)]
pub struct Case {
    pub base: Base,
    pub opts: Opts,
    pub inject: Inject,
    /// 0 = first, 1 = middle, 2 = last chromosome / item; item 3 = in front of the first item
    pub chrom_sel: u8,
    pub item_sel: u8,
    pub degenerate: Degenerate,
    /// text sources only: also feed the same text to the command-line converter and judge its exit
    #[serde(default)]
    pub cli: bool,
}

pub struct C13;

fn pick(sel: u8, len: usize) -> usize {
    match sel {
        0 | 3 => 0,
        1 => len / 2,
        _ => len.saturating_sub(1),
    }
}

const SHIFT: u32 = 10;
/// offenders after a value (0,4): every one starts before 4, so the pair is out of order or overlapping
const OVERLAP_SHAPES: [(u32, u32); 8] = [(0, 0), (1, 1), (3, 3), (0, 2), (0, 4), (0, 6), (1, 3), (3, 6)];

/// raw items + sizes + optional text override after injecting the violation
struct Built {
    bw_items: Vec<(String, Value)>,
    bb_items: Vec<(String, BedEntry)>,
    sizes: HashMap<String, u32>,
    autosql: Option<String>,
    text: Option<(String, Vec<(u64, String)>)>,
    invalid: bool,
    what: String,
}

fn render_lines(lines: &[(String, String)]) -> (String, Vec<(u64, String)>) {
    let mut s = String::new();
    let mut idx: Vec<(u64, String)> = vec![];
    for (c, l) in lines {
        if idx.last().map(|x| &x.1 != c).unwrap_or(true) {
            idx.push((s.len() as u64, c.clone()));
        }
        s.push_str(l);
        s.push('\n');
    }
    (s, idx)
}

fn build(case: &Case) -> Built {
    let is_text = matches!(case.opts.source, SourceKind::SerialText | SourceKind::ParallelText);
    let mut b = Built {
        bw_items: vec![],
        bb_items: vec![],
        sizes: HashMap::new(),
        autosql: None,
        text: None,
        invalid: case.inject != Inject::None,
        what: format!("{:?}", case.inject),
    };
    // chromosome list: (name, size, items as (s, e, payload))
    let mut chroms: Vec<(String, u32, Vec<(u32, u32, String)>)> = match &case.base {
        Base::Bw(i) => i
            .chroms
            .iter()
            .map(|c| (c.name.clone(), c.size, c.vals.iter().map(|v| (v.s, v.e, format!("{}", v.v))).collect()))
            .collect(),
        Base::Bb(i) => i
            .chroms
            .iter()
            .map(|c| (c.name.clone(), c.size, c.entries.iter().map(|v| (v.s, v.e, v.rest.clone())).collect()))
            .collect(),
    };
    let is_bw = matches!(case.base, Base::Bw(_));
    match &case.base {
        Base::Bw(i) => {
            for (n, s) in &i.unused {
                b.sizes.insert(n.clone(), *s);
            }
        }
        Base::Bb(i) => {
            for (n, s) in &i.unused {
                b.sizes.insert(n.clone(), *s);
            }
            b.autosql = i.autosql.clone();
        }
    }
    let ck = pick(case.chrom_sel, chroms.len());
    let mut bad_line: Option<(usize, usize, String)> = None; // chrom, item, replacement line
    let payload = if is_bw { "1.5".to_string() } else { "x".to_string() };
    // the injection shifts items up by a few bases: a chromosome that reaches the top of the u32
    // range is moved down first (only when something is injected; valid inputs stay as generated)
    if case.inject != Inject::None {
        let lim = u32::MAX - 64;
        let (_, size, items) = &mut chroms[ck];
        let top = items.iter().map(|i| i.1.max(i.0)).max().unwrap_or(0).max(*size);
        if top > lim {
            let min_s = items.iter().map(|i| i.0.min(i.1)).min().unwrap_or(0);
            let d = (top - lim).min(min_s);
            for it in items.iter_mut() {
                it.0 -= d;
                it.1 -= d;
            }
            *size = size.saturating_sub(d);
            if top - d > lim {
                items.retain(|i| i.0 <= lim && i.1 <= lim);
                *size = (*size).min(lim);
                if items.is_empty() {
                    items.push((0, 1, payload.clone()));
                    *size = (*size).max(2);
                }
            }
        }
    }
    // helper: insert a bad segment of up to 10 bases after item k of chromosome ck, shifting the rest
    let mut insert_after = |chroms: &mut Vec<(String, u32, Vec<(u32, u32, String)>)>, seg: Vec<(u32, u32)>, bigwig: bool| {
        let (_, size, items) = &mut chroms[ck];
        *size = size.saturating_add(SHIFT + 10);
        if case.item_sel == 3 {
            // in front of everything: the violation involves the very first items of the chromosome
            for it in items.iter_mut() {
                it.0 += SHIFT;
                it.1 += SHIFT;
            }
            let mut at = 0;
            for (s, e) in seg {
                items.insert(at, (s, e, payload.clone()));
                at += 1;
            }
            return;
        }
        let k = pick(case.item_sel, items.len());
        let p = if bigwig { items[k].1.max(items[k].0) } else { items[k].0 };
        for it in items.iter_mut().skip(k + 1) {
            it.0 += SHIFT;
            it.1 += SHIFT;
        }
        let mut at = k + 1;
        for (s, e) in seg {
            items.insert(at, (p + s, p + e, payload.clone()));
            at += 1;
        }
    };
    match case.inject {
        Inject::None => {}
        Inject::BwOutOfOrder => insert_after(&mut chroms, vec![(5, 6), (1, 2)], true),
        Inject::BwOverlap => insert_after(&mut chroms, vec![(0, 4), (2, 6)], true),
        Inject::BwOverlapShape(k) => insert_after(&mut chroms, vec![(0, 4), OVERLAP_SHAPES[k as usize % OVERLAP_SHAPES.len()]], true),
        Inject::StartGtEnd => insert_after(&mut chroms, vec![(5, 2)], is_bw),
        Inject::BwEndGtSize => {
            // make item k a positive-length value ending at >= 2, then shrink the chromosome below it
            insert_after(&mut chroms, vec![(1, 4)], true);
            let (_, size, items) = &mut chroms[ck];
            let k = if case.item_sel == 3 { 0 } else { pick(case.item_sel, items.len() - 1) + 1 };
            *size = items[k].1 - 1;
        }
        Inject::BwEmptyBeyondEnd => {
            let (_, size, items) = &mut chroms[ck];
            let top = items.iter().map(|i| i.1.max(i.0)).max().unwrap_or(0).max(*size);
            *size = top;
            let p = top + 1 + (case.item_sel as u32 % 3) * 4;
            items.push((p, p, payload.clone()));
        }
        Inject::BbStartOrder => insert_after(&mut chroms, vec![(5, 9), (1, 9)], false),
        Inject::BbStartGeSize => {
            insert_after(&mut chroms, vec![(3, 8)], false);
            let (_, size, items) = &mut chroms[ck];
            let k = if case.item_sel == 3 { 0 } else { pick(case.item_sel, items.len() - 1) + 1 };
            *size = items[k].0; // start == size
            if case.item_sel == 1 && items[k].0 > 0 {
                *size = items[k].0 - 1;
            }
            if *size == 0 {
                *size = 1;
                items[k].0 = 1;
                items[k].1 = items[k].1.max(1);
            }
        }
        Inject::UnknownChrom | Inject::ChromOrder | Inject::Empty => {}
        Inject::NonNumeric | Inject::MissingColumn | Inject::Negative | Inject::BeyondU32 | Inject::Blank | Inject::LeadingSpace | Inject::LeadingTab => {
            let (name, _, items) = &chroms[ck];
            let k = pick(case.item_sel, items.len());
            let it = &items[k];
            let line = match case.inject {
                Inject::NonNumeric => {
                    if case.item_sel % 2 == 0 {
                        format!("{}\t{}x\t{}\t{}", name, it.0, it.1, it.2)
                    } else {
                        format!("{}\t{}\tabc\t{}", name, it.0, it.2)
                    }
                }
                Inject::MissingColumn => {
                    if is_bw && case.item_sel == 1 {
                        format!("{}\t{}\t{}", name, it.0, it.1) // bedGraph without a value
                    } else {
                        format!("{}\t{}", name, it.0)
                    }
                }
                Inject::Negative => format!("{}\t-{}\t{}\t{}", name, it.0 + 1, it.1, it.2),
                Inject::BeyondU32 => {
                    let w = 1u128 << 32;
                    let (a, b) = (it.0 as u128, it.1 as u128);
                    match case.item_sel % 4 {
                        0 => format!("{}\t{}\t{}\t{}", name, a + w, b + w, it.2),
                        1 => format!("{}\t{}\t{}\t{}", name, a, b + w, it.2),
                        2 => format!("{}\t{}\t{}\t{}", name, a, b + 3 * w, it.2),
                        _ => format!("{}\t{}\t{}\t{}", name, a, b + (1u128 << 64), it.2),
                    }
                }
                Inject::LeadingSpace => format!(" {}\t{}\t{}\t{}", name, it.0, it.1, it.2),
                Inject::LeadingTab => format!("\t{}\t{}\t{}\t{}", name, it.0, it.1, it.2),
                _ => String::new(),
            };
            bad_line = Some((ck, k, line));
        }
    }
    if case.inject == Inject::ChromOrder {
        if chroms.len() == 1 {
            let mut extra = chroms[0].clone();
            extra.0 = format!("{}a", extra.0);
            chroms.push(extra);
        }
        // make chromosome ck precede a bytewise smaller-or-equal name: swap ck with a neighbour
        let a = if ck + 1 < chroms.len() { ck } else { ck - 1 };
        chroms.swap(a, a + 1);
    }
    for (n, s, _) in &chroms {
        b.sizes.insert(n.clone(), *s);
    }
    if case.inject == Inject::UnknownChrom {
        let name = chroms[ck].0.clone();
        b.sizes.remove(&name);
        if b.sizes.is_empty() {
            b.sizes.insert(format!("{}_other", name), 100);
        }
    }
    if case.inject == Inject::Empty {
        chroms.clear();
    }
    // items
    for (n, _, items) in &chroms {
        for it in items {
            if is_bw {
                b.bw_items.push((
                    n.clone(),
                    Value {
                        start: it.0,
                        end: it.1,
                        value: it.2.parse().unwrap_or(1.5),
                    },
                ));
            } else {
                b.bb_items.push((
                    n.clone(),
                    BedEntry {
                        start: it.0,
                        end: it.1,
                        rest: it.2.clone(),
                    },
                ));
            }
        }
    }
    if is_text {
        let mut lines: Vec<(String, String)> = vec![];
        for (ci, (n, _, items)) in chroms.iter().enumerate() {
            for (k, it) in items.iter().enumerate() {
                let l = match &bad_line {
                    Some((bc, bk, l)) if *bc == ci && *bk == k => l.clone(),
                    _ => {
                        if is_bw || !it.2.is_empty() {
                            format!("{}\t{}\t{}\t{}", n, it.0, it.1, it.2)
                        } else {
                            format!("{}\t{}\t{}", n, it.0, it.1)
                        }
                    }
                };
                lines.push((n.clone(), l));
            }
        }
        b.text = Some(render_lines(&lines));
    }
    b
}

fn degenerate_bw(d: Degenerate, mut input: BwInput) -> BwInput {
    match d {
        Degenerate::No => {}
        Degenerate::OnlyZeroLength => {
            for c in input.chroms.iter_mut() {
                for v in c.vals.iter_mut() {
                    v.e = v.s;
                }
            }
        }
        Degenerate::OneItem => {
            input.chroms.truncate(1);
            input.chroms[0].vals.truncate(1);
        }
        Degenerate::OnlyAtZero => {
            for c in input.chroms.iter_mut() {
                c.vals = vec![BwVal { s: 0, e: 1.min(c.size), v: 2.0 }];
            }
        }
        Degenerate::OnlyAtEnd => {
            for c in input.chroms.iter_mut() {
                c.vals = vec![BwVal { s: c.size - 1, e: c.size, v: 2.0 }];
            }
        }
        Degenerate::OneChromAllZeroLength => {
            let k = input.chroms.len() / 2;
            for v in input.chroms[k].vals.iter_mut() {
                v.e = v.s;
            }
        }
    }
    input
}

fn degenerate_bb(d: Degenerate, mut input: BbInput) -> BbInput {
    match d {
        Degenerate::No => {}
        Degenerate::OnlyZeroLength => {
            for c in input.chroms.iter_mut() {
                for v in c.entries.iter_mut() {
                    v.e = v.s;
                }
            }
        }
        Degenerate::OneItem => {
            input.chroms.truncate(1);
            input.chroms[0].entries.truncate(1);
        }
        Degenerate::OnlyAtZero => {
            for c in input.chroms.iter_mut() {
                c.entries = vec![BbEntry { s: 0, e: 1, rest: String::new() }];
            }
        }
        Degenerate::OnlyAtEnd => {
            for c in input.chroms.iter_mut() {
                c.entries = vec![BbEntry { s: c.size - 1, e: c.size, rest: String::new() }];
            }
        }
        Degenerate::OneChromAllZeroLength => {
            let k = input.chroms.len() / 2;
            for v in input.chroms[k].entries.iter_mut() {
                v.e = v.s;
            }
        }
    }
    input
}

fn inject_for(bw: bool) -> BoxedStrategy<Inject> {
    let common = vec![
        Inject::StartGtEnd,
        Inject::UnknownChrom,
        Inject::ChromOrder,
        Inject::NonNumeric,
        Inject::MissingColumn,
        Inject::Negative,
        Inject::BeyondU32,
        Inject::Blank,
        Inject::Empty,
        Inject::LeadingSpace,
        Inject::LeadingTab,
    ];
    let mut v = common;
    if bw {
        v.extend([Inject::BwOutOfOrder, Inject::BwOverlap, Inject::BwEndGtSize, Inject::BwEmptyBeyondEnd]);
        v.extend((0..OVERLAP_SHAPES.len() as u8).map(Inject::BwOverlapShape));
    } else {
        v.extend([Inject::BbStartOrder, Inject::BbStartGeSize]);
    }
    select(v).boxed()
}

fn fix_opts(mut o: Opts, inject: Inject, text_pref: bool) -> Opts {
    if matches!(inject, Inject::NonNumeric | Inject::MissingColumn | Inject::Negative | Inject::BeyondU32 | Inject::Blank | Inject::LeadingSpace | Inject::LeadingTab)
        && !matches!(o.source, SourceKind::SerialText | SourceKind::ParallelText)
    {
        o.source = if text_pref { SourceKind::SerialText } else { SourceKind::ParallelText };
    }
    if inject == Inject::ChromOrder {
        o.sorted_chroms = true;
    }
    o
}

fn sample_base_bw() -> BwInput {
    let mut chroms = vec![];
    for (ci, name) in ["chrA", "chrB", "chrC"].iter().enumerate() {
        let mut vals = vec![];
        for i in 0..5u32 {
            vals.push(BwVal { s: 20 + i * 30, e: 20 + i * 30 + 10 + ci as u32, v: (i + 1) as f32 });
        }
        chroms.push(BwChrom { name: name.to_string(), size: 400, vals });
    }
    BwInput { chroms, unused: vec![("chrZ".into(), 50)] }
}
fn sample_base_bb() -> BbInput {
    let mut chroms = vec![];
    for (ci, name) in ["chrA", "chrB", "chrC"].iter().enumerate() {
        let mut entries = vec![];
        for i in 0..5u32 {
            entries.push(BbEntry { s: 20 + i * 30, e: 20 + i * 30 + 45 + ci as u32, rest: format!("n{}\t{}", i, i * 7) });
        }
        chroms.push(BbChrom { name: name.to_string(), size: 400, entries });
    }
    BbInput { chroms, unused: vec![("chrZ".into(), 50)], autosql: None }
}

/// perform the write of a C13 case into `sink`
pub fn write_case(case: &Case, sink: SharedSink) -> Result<(), String> {
    let b = build(case);
    if matches!(case.base, Base::Bw(_)) {
        drive::write_bw_raw(b.bw_items, b.sizes, &case.opts, sink, b.text)
    } else {
        drive::write_bb_raw(b.bb_items, b.sizes, b.autosql, &case.opts, sink, b.text)
    }
}

impl Prop for C13 {
    type Case = Case;
    const ID: &'static str = "C13";
    const TERMINATION: bool = true;
    fn rule() -> String {
        "a valid multi-chromosome input with ONE violation injected at a generated position: class in {bigWig out-of-order, overlap (also eight shapes of the offender after a value (0,4): zero-length at its start / inside it, nested, identical, longer, ending inside), start>end, end>size (also an EMPTY last item wholly beyond the end); bigBed start order, start>=size; \
         unknown chromosome; chromosome order with sorted input required; malformed line (non-numeric, missing column, negative, a coordinate of 2^32 or 2^64 and more that is valid modulo the integer width, blank, a valid record behind a leading space / tab); empty input} x {in front of the first, after the first, middle, last item} x {first, middle, last chromosome} \
         x {bigWig, bigBed} x {infallible iterator, fallible iterator, serial text, parallel text} x {single, two pass} (that grid once as fixed cases, plus generated bases/options); \
         oracle: the call returns Err (Ok is a violation), does not panic and returns within the deadline; valid degenerate inputs (only zero-length items, one item, items only at 0 / at the end, one chromosome all zero-length) must return, and if Ok the file must read back. \
         Text-source cases (all of the fixed grid, a quarter of the generated ones) also go through the real bedgraphtobigwig / bedtobigbed binaries with the matching flags (-t, --parallel, --single-pass, --uncompressed, --inmemory, --sorted, --block-size, --items-per-slot, --zooms/--nzooms): \
         the tool must terminate (30 s, confirmed with 90 s), must not exit by panic (status 101) or signal, and must not exit 0 leaving a file the reader opens when a violation was injected. \
         non-trivial = violation not at the first item of the first chromosome; distinct = distinct case JSON"
            .into()
    }
    fn technique() -> String {
        "property-based fault injection into generated valid inputs; watchdog per case (termination is part of the statement)".into()
    }
    fn assumptions() -> Vec<String> {
        vec![
            "a panic counts when it reaches the caller of write()/write_multipass(); panics contained inside spawned tasks are labelled, not judged".into(),
            "per-case deadline 20 s (cases take milliseconds); a deadline hit is confirmed alone with 90 s before it is reported".into(),
            "command-line part: a refusal that exits 0 without leaving a readable file is labelled, not judged (the statement speaks of the write call's error value); a panic message on stderr together with an ordinary error exit is a panic contained in a spawned task (labelled)".into(),
        ]
    }
    fn case_deadline_s() -> u64 {
        20
    }
    fn cases(tier: Tier) -> u64 {
        tier.pick(30_000, 200_000)
    }
    fn strategy(tier: Tier) -> BoxedStrategy<Case> {
        let mc = gen::tier_chroms(tier);
        let bw = (
            gen::opts(false),
            prop_oneof![3 => inject_for(true), 1 => Just(Inject::None)],
            0u8..3,
            0u8..4,
            select(vec![
                Degenerate::No,
                Degenerate::OnlyZeroLength,
                Degenerate::OneItem,
                Degenerate::OnlyAtZero,
                Degenerate::OnlyAtEnd,
                Degenerate::OneChromAllZeroLength,
            ]),
            any::<bool>(),
            prop::bool::weighted(0.25),
        )
            .prop_flat_map(move |(o, inject, cs, is, deg, tp, cli)| {
                let o = fix_opts(o, inject, tp);
                let sorted = o.sorted_chroms;
                (gen::bw_input(mc, 30, sorted), Just((o, inject, cs, is, deg, cli)))
            })
            .prop_map(|(input, (mut o, inject, cs, is, deg, cli))| {
                let deg = if inject == Inject::None { deg } else { Degenerate::No };
                // keep the number of zoom sections (one spawned task each) small: cases must stay
                // milliseconds long so that the termination deadline means something
                let bases: u64 = input.chroms.iter().map(|c| c.vals.iter().map(|v| (v.e - v.s) as u64).sum::<u64>()).sum();
                gen::tame_zooms(bases, input.n_items() as u64, &mut o, 1500);
                Case {
                    base: Base::Bw(degenerate_bw(deg, input)),
                    opts: o,
                    inject,
                    chrom_sel: cs,
                    item_sel: is,
                    degenerate: deg,
                    cli,
                }
            });
        let bb = (
            gen::opts(false),
            prop_oneof![3 => inject_for(false), 1 => Just(Inject::None)],
            0u8..3,
            0u8..4,
            select(vec![
                Degenerate::No,
                Degenerate::OnlyZeroLength,
                Degenerate::OneItem,
                Degenerate::OnlyAtZero,
                Degenerate::OnlyAtEnd,
                Degenerate::OneChromAllZeroLength,
            ]),
            any::<bool>(),
            prop::bool::weighted(0.25),
        )
            .prop_flat_map(move |(o, inject, cs, is, deg, tp, cli)| {
                let o = fix_opts(o, inject, tp);
                let sorted = o.sorted_chroms;
                (gen::bb_input(mc, 30, sorted, true), Just((o, inject, cs, is, deg, cli)))
            })
            .prop_map(|(mut input, (mut o, inject, cs, is, deg, cli))| {
                let deg = if inject == Inject::None { deg } else { Degenerate::No };
                let bases: u64 = input.chroms.iter().map(|c| c.entries.iter().map(|v| (v.e - v.s) as u64).sum::<u64>()).sum();
                gen::tame_zooms(bases, input.n_items() as u64, &mut o, 1500);
                // arbitrary autoSql text belongs to C19 (parser totality): keep the default here
                input.autosql = None;
                Case {
                    base: Base::Bb(degenerate_bb(deg, input)),
                    opts: o,
                    inject,
                    chrom_sel: cs,
                    item_sel: is,
                    degenerate: deg,
                    cli,
                }
            });
        prop_oneof![bw, bb].boxed()
    }
    fn fixed_cases(_tier: Tier) -> Vec<Case> {
        let mut v = vec![];
        let sources = [
            SourceKind::Infallible,
            SourceKind::Fallible,
            SourceKind::SerialText,
            SourceKind::ParallelText,
        ];
        for bw in [true, false] {
            let classes: Vec<Inject> = if bw {
                let mut c = vec![
                    Inject::BwOutOfOrder, Inject::BwOverlap, Inject::StartGtEnd, Inject::BwEndGtSize, Inject::BwEmptyBeyondEnd, Inject::UnknownChrom,
                    Inject::ChromOrder, Inject::NonNumeric, Inject::MissingColumn, Inject::Negative, Inject::BeyondU32, Inject::Blank, Inject::Empty,
                    Inject::LeadingSpace, Inject::LeadingTab,
                ];
                c.extend((0..OVERLAP_SHAPES.len() as u8).map(Inject::BwOverlapShape));
                c
            } else {
                vec![
                    Inject::BbStartOrder, Inject::StartGtEnd, Inject::BbStartGeSize, Inject::UnknownChrom, Inject::ChromOrder,
                    Inject::NonNumeric, Inject::MissingColumn, Inject::Negative, Inject::BeyondU32, Inject::Blank, Inject::Empty,
                    Inject::LeadingSpace, Inject::LeadingTab,
                ]
            };
            for inject in classes {
                for cs in 0..3u8 {
                    for is in 0..4u8 {
                        for src in sources {
                            for multipass in [false, true] {
                                let mut o = Opts::default();
                                o.source = src;
                                o.multipass = multipass;
                                o.threads = if (cs + is) % 2 == 0 { 0 } else { 3 };
                                o.items_per_slot = 2;
                                o.zoom = ZoomSpec::Manual(vec![16, 64]);
                                let o = fix_opts(o, inject, src != SourceKind::Fallible);
                                if matches!(inject, Inject::NonNumeric | Inject::MissingColumn | Inject::Negative | Inject::BeyondU32 | Inject::Blank | Inject::LeadingSpace | Inject::LeadingTab)
                                    && matches!(src, SourceKind::Infallible | SourceKind::Fallible)
                                {
                                    continue; // text classes only exist for text sources
                                }
                                v.push(Case {
                                    base: if bw { Base::Bw(sample_base_bw()) } else { Base::Bb(sample_base_bb()) },
                                    opts: o,
                                    inject,
                                    chrom_sel: cs,
                                    item_sel: is,
                                    degenerate: Degenerate::No,
                                    cli: true,
                                });
                            }
                        }
                    }
                }
            }
        }
        // the D5 regressions: zoom levels without records
        let mut o = Opts::default();
        o.zoom = ZoomSpec::Manual(vec![1, 10]);
        v.push(Case {
            base: Base::Bw(BwInput {
                chroms: vec![BwChrom { name: "chr1".into(), size: 10, vals: vec![BwVal { s: 5, e: 5, v: 1.0 }] }],
                unused: vec![],
            }),
            opts: o.clone(),
            inject: Inject::None,
            chrom_sel: 0,
            item_sel: 0,
            degenerate: Degenerate::No,
            cli: false,
        });
        for multipass in [false, true] {
            let mut o2 = o.clone();
            o2.multipass = multipass;
            o2.zoom = if multipass { ZoomSpec::Auto { initial: 10, max: 3 } } else { o2.zoom };
            v.push(Case {
                base: Base::Bb(BbInput {
                    chroms: vec![BbChrom { name: "chr1".into(), size: 248, entries: vec![BbEntry { s: 247, e: 247, rest: "".into() }] }],
                    unused: vec![],
                    autosql: None,
                }),
                opts: o2,
                inject: Inject::None,
                chrom_sel: 0,
                item_sel: 0,
                degenerate: Degenerate::No,
                cli: false,
            });
        }
        v
    }
    fn check(case: &Case, obs: &mut Obs) -> Result<(), String> {
        check_lib(case, obs)?;
        check_cli(case, obs)
    }
}

fn check_lib(case: &Case, obs: &mut Obs) -> Result<(), String> {
    gen::label_opts(&case.opts, obs);
    obs.label(&format!("inject={:?}", case.inject));
    obs.label(&format!("degenerate={:?}", case.degenerate));
    obs.label(if matches!(case.base, Base::Bw(_)) { "bigwig" } else { "bigbed" });
    obs.label(&format!("at=chrom{}-item{}", case.chrom_sel, case.item_sel));
    let b = build(case);
    let sink = SharedSink::new();
    let is_bw = matches!(case.base, Base::Bw(_));
    let r = if is_bw {
        drive::write_bw_raw(b.bw_items.clone(), b.sizes.clone(), &case.opts, sink.clone(), b.text.clone())
    } else {
        drive::write_bb_raw(
            b.bb_items.clone(),
            b.sizes.clone(),
            b.autosql.clone(),
            &case.opts,
            sink.clone(),
            b.text.clone(),
        )
    };
    let bg = crate::runner::take_last_panic();
    obs.label_if(!bg.is_empty(), "panic-contained-in-spawned-task");
    if !bg.is_empty() {
        obs.notes.push(format!("contained panic ({}): {}", b.what, bg));
    }
    if b.invalid {
        obs.nontrivial = !(case.chrom_sel == 0 && case.item_sel == 0);
        match r {
            Err(_) => {
                obs.label("refused");
                Ok(())
            }
            Ok(()) => Err(format!(
                "input with an injected violation ({}) was accepted: write returned Ok",
                b.what
            )),
        }
    } else {
        obs.nontrivial = case.degenerate != Degenerate::No;
        match r {
            Err(e) => {
                obs.label("valid-input-refused");
                obs.notes.push(format!("valid (degenerate={:?}) input refused: {}", case.degenerate, e));
                Ok(())
            }
            Ok(()) => {
                // the file must read back (C01/C02 oracle, minus the recorded findings K1/K2)
                let bytes = sink.bytes();
                if is_bw {
                    let mut rd = open_bw(bytes)?;
                    if let Base::Bw(input) = &case.base {
                        check_chrom_table(rd.chroms(), &bw_expected_chroms(input))?;
                        for c in &input.chroms {
                            let got = read_bw_full(&mut rd, c)?;
                            let want: Vec<BwVal> = c
                                .vals
                                .iter()
                                .filter(|v| !(v.s == v.e && (v.s == 0 || v.s == c.size)))
                                .cloned()
                                .collect();
                            let got: Vec<BwVal> = got
                                .into_iter()
                                .filter(|v| !(v.s == v.e && (v.s == 0 || v.s == c.size)))
                                .collect();
                            if !same_vals(&got, &want) {
                                return Err(format!(
                                    "degenerate valid input accepted but reads back differently on {:?}: {}",
                                    c.name,
                                    first_diff_vals(&got, &want)
                                ));
                            }
                        }
                    }
                } else {
                    let mut rd = open_bb(bytes)?;
                    if let Base::Bb(input) = &case.base {
                        check_chrom_table(rd.chroms(), &bb_expected_chroms(input))?;
                        for c in &input.chroms {
                            if c.entries.iter().any(|e| e.s == 0 && e.e == 0) {
                                continue; // K2
                            }
                            let got = read_bb_range(&mut rd, &c.name, 0, c.size)?;
                            if got != c.entries {
                                return Err(format!(
                                    "degenerate valid input accepted but reads back differently on {:?}: {}",
                                    c.name,
                                    first_diff_entries(&got, &c.entries)
                                ));
                            }
                        }
                    }
                }
                Ok(())
            }
        }
    }
}

/// the same text through bedgraphtobigwig / bedtobigbed: the tool must terminate, must not panic, and
/// must not exit 0 leaving a readable file behind when the text carries an injected violation
fn check_cli(case: &Case, obs: &mut Obs) -> Result<(), String> {
    use super::cli::{run_tool, tmpdir};
    if !case.cli {
        return Ok(());
    }
    let b = build(case);
    let Some((text, _)) = b.text.clone() else {
        return Ok(());
    };
    if super::cli::bindir().is_none() {
        obs.label("tool-binaries-missing");
        return Err("the command-line binaries are not built (VERIF_BIN): ./check builds them".into());
    }
    let is_bw = matches!(case.base, Base::Bw(_));
    let dir = tmpdir("c13_")?;
    let p = |n: &str| dir.path().join(n).to_string_lossy().to_string();
    let mut sizes: Vec<(&String, &u32)> = b.sizes.iter().collect();
    sizes.sort();
    let sizes_txt: String = sizes.iter().map(|(n, s)| format!("{}\t{}\n", n, s)).collect();
    // names that the whitespace-splitting chrom.sizes parser cannot carry are outside the tool's domain
    if sizes.iter().any(|(n, _)| n.is_empty() || n.chars().any(|c| c.is_whitespace())) {
        obs.label("cli-skipped-name-not-representable");
        return Ok(());
    }
    std::fs::write(p("in.txt"), &text).map_err(|e| e.to_string())?;
    std::fs::write(p("sizes"), &sizes_txt).map_err(|e| e.to_string())?;
    let o = &case.opts;
    let tool = if is_bw { "bedgraphtobigwig" } else { "bedtobigbed" };
    let mut args: Vec<String> = vec![p("in.txt"), p("sizes"), p("out.bbi")];
    let threads = (o.threads as usize).max(1);
    args.push("-t".into());
    args.push(threads.to_string());
    args.push(format!("--parallel={}", if o.source == SourceKind::ParallelText { "yes" } else { "no" }));
    if !o.multipass {
        args.push("--single-pass".into());
    }
    if !o.compress {
        args.push("--uncompressed".into());
    }
    if o.inmemory {
        args.push("--inmemory".into());
    }
    if !o.sorted_chroms {
        args.push("--sorted=start".into());
    }
    args.push(format!("--block-size={}", o.block_size));
    args.push(format!("--items-per-slot={}", o.items_per_slot));
    match &o.zoom {
        ZoomSpec::Manual(v) if !v.is_empty() => args.push(format!("--zooms={}", v.iter().map(|x| x.to_string()).collect::<Vec<_>>().join(","))),
        ZoomSpec::Manual(_) => args.push("--nzooms=0".into()),
        ZoomSpec::Auto { max, .. } => args.push(format!("--nzooms={}", max)),
    }
    obs.label("cli");
    obs.label(&format!("cli-parallel={}", o.source == SourceKind::ParallelText && threads > 1));
    let mut out = run_tool(tool, &args, &[], 30)?;
    if out.timed_out {
        // confirm once, alone on the clock, before calling it a hang
        let _ = std::fs::remove_file(p("out.bbi"));
        out = run_tool(tool, &args, &[], 90)?;
        if out.timed_out {
            return Err(format!("{} {:?} did not terminate within 90 s ({})", tool, &args[3..], b.what));
        }
        obs.label("cli-slow-once");
    }
    obs.evals += 1;
    if out.panicked() {
        return Err(format!(
            "{} {:?} panicked / was killed by a signal (status {:?}) on {} input: {}",
            tool,
            &args[3..],
            out.code,
            if b.invalid { format!("invalid ({})", b.what) } else { "valid".to_string() },
            out.stderr.lines().find(|l| l.contains("panicked")).unwrap_or(out.stderr.lines().next().unwrap_or("")).trim()
        ));
    }
    obs.label_if(out.contained_panic(), "cli-panic-contained-in-spawned-task");
    if b.invalid {
        if out.code == Some(0) {
            // exit 0: only a violation if a file was left behind that the reader accepts
            let accepted = match std::fs::read(p("out.bbi")) {
                Ok(bytes) if !bytes.is_empty() => {
                    if is_bw {
                        open_bw(bytes).is_ok()
                    } else {
                        open_bb(bytes).is_ok()
                    }
                }
                _ => false,
            };
            if accepted {
                return Err(format!(
                    "{} {:?} exited 0 and left a readable file although the text carries an injected violation ({})",
                    tool,
                    &args[3..],
                    b.what
                ));
            }
            obs.label("cli-refused-with-exit-0");
            obs.notes.push(format!("{} refused ({}) but exited 0: {}", tool, b.what, out.stderr.lines().next().unwrap_or("")));
        } else {
            obs.label("cli-refused");
        }
    } else {
        obs.label(if out.code == Some(0) { "cli-valid-accepted" } else { "cli-valid-refused" });
    }
    Ok(())
}
