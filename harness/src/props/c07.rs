//! C07 — bigWig zoom levels are faithful reductions of the data
use super::common::*;
use super::written::*;
use super::zoomq::check_zoom_levels;
use super::c01;
use crate::drive;
use crate::gen;
use crate::indep::decode;
use crate::model::*;
use crate::runner::{Obs, Prop, Tier};
use crate::sink::SharedSink;
use proptest::prelude::*;

pub struct C07;

/// the D3 shape: a gap that starts inside an open record and runs past that record's end
fn gap_past_record(input: &BwInput, levels: &[(u32, Vec<ZRec>)]) -> bool {
    for (res, recs) in levels {
        for (id, c) in input.chroms.iter().enumerate() {
            let crecs: Vec<&ZRec> = recs.iter().filter(|z| z.chrom == id as u32).collect();
            if crecs.len() < 2 {
                continue;
            }
            let vals: Vec<&BwVal> = c.vals.iter().filter(|v| v.e > v.s).collect();
            for w in vals.windows(2) {
                if w[1].s > w[0].e {
                    // record holding the last base of w[0]
                    if let Some(z) = crecs.iter().find(|z| z.start < w[0].e && w[0].e as u64 <= z.start as u64 + *res as u64) {
                        let rec_end = z.start.saturating_add(*res);
                        if w[0].e < rec_end && w[1].s > rec_end {
                            return true;
                        }
                    }
                }
            }
        }
    }
    false
}

impl Prop for C07 {
    type Case = c01::Case;
    const ID: &'static str = "C07";
    fn rule() -> String {
        "C01 inputs with small automatic / manual resolutions (1..4096) and small items_per_slot, both pass modes; every level listed by the reader is read \
         (a) through get_zoom_interval and (b) by the independent decoder, the two must agree, and the records are judged by the zoom oracle \
         (order, disjoint, <= resolution, every data base in exactly one record, exact covered-base counts, min/max exact in f32, sums within 4 ulp(f32) of Σ|terms|); \
         zoom range queries at record boundaries +-1 (must = positive-length intersection, may = touching). \
         non-trivial = some level has >= 2 records in one chromosome AND a gap that starts inside an open record and extends past its end"
            .into()
    }
    fn technique() -> String {
        "property-based testing against a reference model + differential (reader vs independent decoder)".into()
    }
    fn assumptions() -> Vec<String> {
        vec![
            "manual zoom lists strictly increasing and positive; resolutions coarsened (never the input rejected) when the number of zoom sections would explode".into(),
            "automatic mode may drop every level on tiny inputs: such cases are counted as trivial (label zoom-levels=0)".into(),
        ]
    }
    fn cases(tier: Tier) -> u64 {
        tier.pick(8000, 40_000)
    }
    fn strategy(tier: Tier) -> BoxedStrategy<c01::Case> {
        gen::bw_case(tier, true).prop_map(c01::make_case).boxed()
    }
    fn check(c: &c01::Case, obs: &mut Obs) -> Result<(), String> {
        gen::label_opts(&c.opts, obs);
        label_shape_bw(&c.input, &c.opts, obs);
        let sink = SharedSink::new();
        if let Err(e) = drive::write_bw(&c.input, &c.opts, sink.clone()) {
            obs.label("writer-refused");
            obs.notes.push(format!("writer refused generated input: {}", e));
            return Ok(());
        }
        let bytes = sink.bytes();
        let d = decode::decode(&bytes).map_err(|e| format!("independent decoder rejects the file: {}", e))?;
        let mut r = open_bw(bytes)?;
        let names = bw_expected_chroms(&c.input);
        let levels = check_zoom_levels(&mut r, &d, &c.opts, &bw_signals(&c.input), &names, obs)?;
        obs.label(&format!("zoom-levels={}", levels.len().min(6)));
        obs.label_if(d.zooms.iter().any(|z| z.index.leaves.len() >= 2), "level-spans-several-blocks");
        let shape = gap_past_record(&c.input, &levels);
        obs.label_if(shape, "gap-past-open-record");
        obs.nontrivial = shape;
        Ok(())
    }
}
