//! C19 — the stored autoSql always matches the data; the schema parser is total
use super::common::*;
use crate::autosql_gen::{self, GenSchema};
use crate::drive;
use crate::model::*;
use crate::runner::{mark_progress, set_current_subcase, Obs, Prop, Tier};
use crate::sink::SharedSink;
use bigtools::bed::autosql::bed_autosql;
use bigtools::bed::autosql::parse::parse_autosql;
use proptest::prelude::*;
use serde::{Deserialize, Serialize};
use std::panic::{catch_unwind, AssertUnwindSafe};
use std::process::Command;

#[derive(Serialize, Deserialize, Clone, Debug)]
pub enum Case {
    /// generator side: extra-column counts 0..=max through bed_autosql, the library and the tool
    Columns { max: u32, tool: bool, #[serde(default)] style: u8 },
    /// a supplied single-table schema: stored verbatim with its field count (library; tool when `tool`)
    Supplied { schema: GenSchema, tool: bool, ucsc_flag: bool },
    /// a grammar-generated multi-declaration schema: parses with the generated counts; every
    /// truncation and every single-token mutation terminates without panic
    Totality { schema: GenSchema },
    /// exhaustive: every string of `len` tokens over the delimiter alphabet whose first token is #`first`
    Alphabet { len: u8, first: u8 },
    /// one string (replay of a sub-case)
    Text { text: String },
}

pub struct C19;

const ALPHABET: [&str; 16] = [
    "a", "1", " ", "\n", ";", "(", ")", "[", "]", ",", "\"", "enum", "set", "table", "index", "auto",
];

/// parse with panic capture; the watchdog (deadline per sub-evaluation) catches non-termination
fn parse_total(text: &str) -> Result<Result<usize, String>, String> {
    mark_progress();
    let r = catch_unwind(AssertUnwindSafe(|| parse_autosql(text)));
    let p = crate::runner::take_last_panic();
    match r {
        Err(_) => Err(format!("parse_autosql panicked ({}) on {:?}", p, text)),
        Ok(Ok(d)) => Ok(Ok(d.len())),
        Ok(Err(e)) => Ok(Err(format!("{:?}", e))),
    }
}

fn publish(text: &str) {
    set_current_subcase(serde_json::to_string(&Case::Text { text: text.to_string() }).unwrap());
}

fn bin(name: &str) -> Option<String> {
    let dir = std::env::var("VERIF_BIN").ok()?;
    let p = format!("{}/{}", dir, name);
    if std::path::Path::new(&p).exists() {
        Some(p)
    } else {
        None
    }
}

fn tmpdir() -> tempfile::TempDir {
    tempfile::Builder::new()
        .prefix("c19_")
        .tempdir_in(std::env::var("VERIF_TMP").unwrap_or_else(|_| std::env::temp_dir().to_string_lossy().to_string()))
        .expect("tempdir")
}

/// n extra columns; style 1: every third column contains a space, style 2: an empty interior column
fn styled_rest(n: u32, style: u8) -> String {
    let plain = rest_with(n);
    if n == 0 || style == 0 {
        return plain;
    }
    let mut cols: Vec<String> = plain.split('\t').map(|c| c.to_string()).collect();
    match style {
        1 => {
            for (i, c) in cols.iter_mut().enumerate() {
                if i % 3 == 0 {
                    *c = format!("{} x", c);
                }
            }
        }
        _ => {
            if cols.len() >= 3 {
                let k = cols.len() / 2;
                cols[k] = String::new();
            }
        }
    }
    cols.join("\t")
}

fn rest_with(n: u32) -> String {
    (0..n).map(|i| format!("f{}", i)).collect::<Vec<_>>().join("\t")
}

fn check_stored(bytes: Vec<u8>, want_sql: &str, want_fields: u16, what: &str) -> Result<(), String> {
    let mut r = open_bb(bytes)?;
    let fc = r.info().header.field_count;
    if fc != want_fields {
        return Err(format!("{}: header field count = {}, expected {}", what, fc, want_fields));
    }
    let sql = r.autosql().map_err(|e| format!("{}: autosql() failed: {}", what, e))?;
    if sql.as_deref() != Some(want_sql) {
        return Err(format!("{}: stored autoSql {:?} differs from {:?}", what, sql, want_sql));
    }
    Ok(())
}

fn one_entry_input(rest: &str, autosql: Option<String>) -> BbInput {
    BbInput {
        chroms: vec![BbChrom {
            name: "chr1".into(),
            size: 1000,
            entries: vec![
                BbEntry { s: 10, e: 20, rest: rest.to_string() },
                BbEntry { s: 30, e: 45, rest: rest.to_string() },
            ],
        }],
        unused: vec![],
        autosql,
    }
}

fn run_tool(args: &[&str]) -> Result<(i32, String, String), String> {
    mark_progress();
    let out = Command::new(args[0])
        .args(&args[1..])
        .env("RUST_BACKTRACE", "0")
        .output()
        .map_err(|e| format!("cannot run {}: {}", args[0], e))?;
    Ok((
        out.status.code().unwrap_or(-1),
        String::from_utf8_lossy(&out.stdout).to_string(),
        String::from_utf8_lossy(&out.stderr).to_string(),
    ))
}

impl Prop for C19 {
    type Case = Case;
    const ID: &'static str = "C19";
    const TERMINATION: bool = true;
    fn rule() -> String {
        "GENERATOR SIDE: for every extra-column count 0..=40 bed_autosql parses to one declaration with 3+n fields; bedtobigbed without -a on a first line with n extra columns (plain tokens, columns containing spaces, an empty interior column) stores that text and field count 3+n; \
         the library default is the BED3 text with 3 fields; a grammar-generated single-table schema (simple/object/table, sized and variable arrays, enum/set, primary/unique/index/index[n], auto, arbitrary comments) \
         supplied to the library and to the tool (-a file / -as=file) is stored verbatim with its number of fields (also via bigbedinfo --autosql in thorough). \
         TOTALITY: parse_autosql on (i) grammar-generated multi-declaration schemas (must be Ok with min(n,4) declarations and the generated field counts), (ii) every truncation on a char boundary, \
         (iii) every single-token deletion / duplication / swap / replacement by each delimiter, (iv) ALL strings of <= 5 tokens (thorough 6) over {a,1,space,newline,;,(,),[,],comma,quote,enum,set,table,index,auto}, \
         (v) non-ASCII whitespace and multi-byte letters: returns Ok/Err, no panic, within 5 s per string (normal: microseconds). \
         non-trivial = the input reaches a field list (an opening bracket after a valid declaration head); enumerated strings are distinct by construction"
            .into()
    }
    fn technique() -> String {
        "grammar-based generation + exhaustive short strings over the delimiter alphabet + truncation/mutation; watchdog for termination; libFuzzer target in thorough".into()
    }
    fn assumptions() -> Vec<String> {
        vec![
            "the parser keeps at most four declarations (observed behaviour, not asserted either way beyond min(n,4))".into(),
            "termination deadline 5 s per parsed string".into(),
        ]
    }
    fn exhaustive(_tier: Tier) -> bool {
        true
    }
    fn case_deadline_s() -> u64 {
        5
    }
    fn rss_limit_mb() -> u64 {
        1500
    }
    fn cases(tier: Tier) -> u64 {
        tier.pick(10_000, 100_000)
    }
    fn strategy(_tier: Tier) -> BoxedStrategy<Case> {
        prop_oneof![
            5 => autosql_gen::schema(6, 8).prop_map(|schema| Case::Totality { schema }),
            2 => (autosql_gen::single_table(), prop::bool::weighted(0.05), any::<bool>())
                .prop_map(|(schema, tool, ucsc_flag)| Case::Supplied { schema, tool, ucsc_flag }),
            1 => "[ -~\n\t\u{a0}\u{3000}é世]{0,40}".prop_map(|text| Case::Text { text }),
        ]
        .boxed()
    }
    fn fixed_cases(tier: Tier) -> Vec<Case> {
        let mut v = vec![Case::Columns { max: 40, tool: false, style: 0 }, Case::Columns { max: 40, tool: true, style: 0 }];
        // columns are TAB-separated: a column may contain spaces, an interior column may be empty
        for style in [1u8, 2] {
            v.push(Case::Columns { max: 40, tool: false, style });
            v.push(Case::Columns { max: 40, tool: true, style });
        }
        let maxlen = tier.pick(5u8, 6u8);
        for len in 1..=maxlen {
            for first in 0..16u8 {
                v.push(Case::Alphabet { len, first });
            }
        }
        // regression for the unterminated enum/set list (defect D9)
        for t in ["table t \"c\" ( enum(a, b", "table t (set(", "table t ( enum (", "simple x(enum(a"] {
            v.push(Case::Text { text: t.to_string() });
        }
        v
    }
    fn check(case: &Case, obs: &mut Obs) -> Result<(), String> {
        match case {
            Case::Text { text } => {
                obs.label("single-text");
                publish(text);
                parse_total(text)?;
                obs.nontrivial = text.contains('(');
                Ok(())
            }
            Case::Alphabet { len, first } => {
                obs.label(&format!("alphabet-len={}", len));
                let n = *len as usize;
                let mut idx = vec![0usize; n];
                idx[0] = *first as usize;
                let mut text = String::new();
                loop {
                    text.clear();
                    for i in &idx {
                        text.push_str(ALPHABET[*i]);
                    }
                    publish(&text);
                    parse_total(&text).map_err(|m| {
                        obs.reduced = Some(serde_json::to_value(Case::Text { text: text.clone() }).unwrap());
                        m
                    })?;
                    obs.evals += 1;
                    if text.starts_with("table") && text.contains('(') {
                        obs.nt_extra += 1;
                    }
                    // odometer over positions 1..n
                    let mut k = n;
                    loop {
                        if k == 1 {
                            k = 0;
                            break;
                        }
                        k -= 1;
                        idx[k] += 1;
                        if idx[k] < ALPHABET.len() {
                            break;
                        }
                        idx[k] = 0;
                    }
                    if k == 0 {
                        break;
                    }
                }
                obs.nontrivial = *first == 13;
                Ok(())
            }
            Case::Totality { schema } => {
                obs.label("grammar-schema");
                obs.label(&format!("decls={}", schema.field_counts.len().min(6)));
                publish(&schema.text);
                // (i) must parse with the generated counts
                match parse_total(&schema.text)? {
                    Ok(n) => {
                        let want = schema.field_counts.len().min(4);
                        if n != want {
                            return Err(format!(
                                "generated schema with {} declarations parsed to {} declarations: {:?}",
                                schema.field_counts.len(),
                                n,
                                schema.text
                            ));
                        }
                        let decls = parse_autosql(&schema.text).unwrap();
                        for (d, want) in decls.iter().zip(schema.field_counts.iter()) {
                            if d.fields.len() != *want {
                                return Err(format!(
                                    "declaration {:?}: parser sees {} fields, the generator emitted {}: {:?}",
                                    d.name.name,
                                    d.fields.len(),
                                    want,
                                    schema.text
                                ));
                            }
                        }
                    }
                    Err(e) => {
                        return Err(format!("grammar-generated schema rejected ({}): {:?}", e, schema.text));
                    }
                }
                obs.nontrivial = true;
                // (ii) every truncation
                let fail = |obs: &mut Obs, t: &str, m: String| -> String {
                    obs.reduced = Some(serde_json::to_value(Case::Text { text: t.to_string() }).unwrap());
                    m
                };
                for (i, _) in schema.text.char_indices() {
                    let t = &schema.text[..i];
                    publish(t);
                    if let Err(m) = parse_total(t) {
                        return Err(fail(obs, t, m));
                    }
                    obs.evals += 1;
                }
                // (iii) single-token mutations
                let toks = &schema.tokens;
                let delims = [";", "(", ")", "[", "]", ",", "\"", " ", "enum", "set"];
                for i in 0..toks.len() {
                    let mut variants: Vec<Vec<String>> = vec![];
                    let mut d = toks.clone();
                    d.remove(i);
                    variants.push(d);
                    let mut d = toks.clone();
                    d.insert(i, toks[i].clone());
                    variants.push(d);
                    if i + 1 < toks.len() {
                        let mut d = toks.clone();
                        d.swap(i, i + 1);
                        variants.push(d);
                    }
                    let mut d = toks.clone();
                    d[i] = delims[i % delims.len()].to_string();
                    variants.push(d);
                    for v in variants {
                        let t = v.concat();
                        publish(&t);
                        if let Err(m) = parse_total(&t) {
                            return Err(fail(obs, &t, m));
                        }
                        obs.evals += 1;
                    }
                }
                Ok(())
            }
            Case::Supplied { schema, tool, ucsc_flag } => {
                obs.label("supplied-schema");
                let n = *schema.field_counts.last().unwrap() as u16;
                let input = one_entry_input("x\ty", Some(schema.text.clone()));
                let sink = SharedSink::new();
                publish(&schema.text);
                drive::write_bb(&input, &Opts::default(), sink.clone())
                    .map_err(|e| format!("library refused a generated schema: {}", e))?;
                check_stored(sink.bytes(), &schema.text, n, "library, supplied schema")?;
                obs.nontrivial = true;
                if *tool {
                    if let (Some(b2b), Some(info)) = (bin("bedtobigbed"), bin("bigbedinfo")) {
                        obs.label("tool");
                        let dir = tmpdir();
                        let p = |f: &str| dir.path().join(f).to_string_lossy().to_string();
                        std::fs::write(p("in.bed"), "chr1\t10\t20\tx\ty\nchr1\t30\t45\tx\ty\n").unwrap();
                        std::fs::write(p("sizes"), "chr1\t1000\n").unwrap();
                        std::fs::write(p("schema.as"), &schema.text).unwrap();
                        let flag = if *ucsc_flag { format!("-as={}", p("schema.as")) } else { format!("--autosql={}", p("schema.as")) };
                        let (rc, _o, e) = run_tool(&[&b2b, &p("in.bed"), &p("sizes"), &p("out.bb"), &flag, "-t", "1"])?;
                        if rc != 0 {
                            return Err(format!("bedtobigbed {} failed (rc {}): {}", flag, rc, e));
                        }
                        let bytes = std::fs::read(p("out.bb")).map_err(|e| format!("no output file: {}", e))?;
                        check_stored(bytes, &schema.text, n, &format!("bedtobigbed {}", if *ucsc_flag { "-as=" } else { "--autosql" }))?;
                        let (rc, o, e) = run_tool(&[&info, &p("out.bb"), "--autosql"])?;
                        if rc != 0 {
                            return Err(format!("bigbedinfo --autosql failed (rc {}): {}", rc, e));
                        }
                        if !o.contains(&format!("fieldCount: {}", n)) {
                            return Err(format!("bigbedinfo reports a different field count than {}: {}", n, o));
                        }
                        if !o.contains(schema.text.as_str()) {
                            return Err("bigbedinfo --autosql does not print the stored schema verbatim".to_string());
                        }
                        obs.evals += 2;
                    }
                }
                Ok(())
            }
            Case::Columns { max, tool, style } => {
                obs.label(if *tool { "columns-tool" } else { "columns-library" });
                for n in 0..=*max {
                    let rest = styled_rest(n, *style);
                    let sql = bed_autosql(&rest);
                    publish(&sql);
                    let sub = |obs: &mut Obs, m: String| -> String {
                        obs.reduced = Some(serde_json::to_value(Case::Columns { max: n, tool: *tool, style: *style }).unwrap());
                        m
                    };
                    match parse_total(&sql) {
                        Err(m) => return Err(sub(obs, m)),
                        Ok(Err(e)) => return Err(sub(obs, format!("bed_autosql({} extra columns) does not parse: {}", n, e))),
                        Ok(Ok(d)) => {
                            if d != 1 {
                                return Err(sub(obs, format!("bed_autosql({} extra columns) parses to {} declarations", n, d)));
                            }
                            let decls = parse_autosql(&sql).unwrap();
                            if decls[0].fields.len() != 3 + n as usize {
                                return Err(sub(
                                    obs,
                                    format!(
                                        "bed_autosql for {} extra columns declares {} fields, expected {}",
                                        n,
                                        decls[0].fields.len(),
                                        3 + n
                                    ),
                                ));
                            }
                            let mut names: Vec<&str> = decls[0].fields.iter().map(|f| f.name.as_str()).collect();
                            names.sort();
                            if names.windows(2).any(|w| w[0] == w[1]) {
                                return Err(sub(obs, format!("bed_autosql for {} extra columns declares a field name twice", n)));
                            }
                        }
                    }
                    obs.evals += 1;
                    if !*tool {
                        // library default and explicit generated schema
                        let sink = SharedSink::new();
                        let input = one_entry_input(&rest, Some(sql.clone()));
                        drive::write_bb(&input, &Opts::default(), sink.clone()).map_err(|e| sub(obs, format!("write failed: {}", e)))?;
                        check_stored(sink.bytes(), &sql, 3 + n as u16, &format!("library, bed_autosql for {} extra columns", n)).map_err(|m| sub(obs, m))?;
                        if n == 0 {
                            let sink = SharedSink::new();
                            let input = one_entry_input("", None);
                            drive::write_bb(&input, &Opts::default(), sink.clone()).map_err(|e| sub(obs, format!("write failed: {}", e)))?;
                            check_stored(sink.bytes(), bigtools::bed::autosql::BED3, 3, "library default").map_err(|m| sub(obs, m))?;
                        }
                    } else if let Some(b2b) = bin("bedtobigbed") {
                        let dir = tmpdir();
                        let p = |f: &str| dir.path().join(f).to_string_lossy().to_string();
                        let line = if n == 0 { "chr1\t10\t20\n".to_string() } else { format!("chr1\t10\t20\t{}\n", rest) };
                        std::fs::write(p("in.bed"), format!("{}{}", line, line.replace("10\t20", "30\t45"))).unwrap();
                        std::fs::write(p("sizes"), "chr1\t1000\n").unwrap();
                        let (rc, _o, e) = run_tool(&[&b2b, &p("in.bed"), &p("sizes"), &p("out.bb"), "-t", if n % 2 == 0 { "1" } else { "3" }])
                            .map_err(|m| sub(obs, m))?;
                        if rc != 0 {
                            return Err(sub(obs, format!("bedtobigbed failed on {} extra columns (rc {}): {}", n, rc, e)));
                        }
                        let bytes = std::fs::read(p("out.bb")).map_err(|e| sub(obs, format!("no output file: {}", e)))?;
                        check_stored(bytes, &sql, 3 + n as u16, &format!("bedtobigbed without -a, {} extra columns", n)).map_err(|m| sub(obs, m))?;
                    } else {
                        obs.label("tool-binaries-missing");
                    }
                    obs.evals += 1;
                    obs.nt_extra += 1;
                }
                obs.nontrivial = true;
                Ok(())
            }
        }
    }
}
