//! C01 — bigWig write/read round trip is exact for every accepted input and option set
use super::common::*;
use crate::drive;
use crate::gen;
use crate::model::*;
use crate::runner::{Obs, Prop, Tier};
use crate::sink::SharedSink;
use proptest::prelude::*;
use serde::{Deserialize, Serialize};

#[derive(Serialize, Deserialize, Clone, Debug)]
pub struct Case {
    pub input: BwInput,
    pub opts: Opts,
    /// number of chromosomes whose layout was nudged to stay outside known finding K1
    #[serde(default)]
    pub k1_nudged: u32,
    /// seeded delay schedule for the cfg(bigtools_verif) hand-off points; the consumer side (the
    /// switch to the real file) is held back so that later chromosomes stage data first
    #[serde(default)]
    pub delay: Option<(u64, u8)>,
}

pub struct C01;

pub fn make_case((mut input, opts): (BwInput, Opts)) -> Case {
    let mut n = 0;
    for c in input.chroms.iter_mut() {
        if gen::exclude_k1(c) {
            n += 1;
        }
    }
    Case {
        input,
        opts,
        k1_nudged: n,
        delay: None,
    }
}

#[cfg(bigtools_verif)]
fn schedule(d: Option<(u64, u8)>) {
    use bigtools::utils::verif_hooks as h;
    match d {
        Some((seed, intensity)) => {
            h::set_schedule(seed, intensity as u32);
            h::set_bias((1 << 4) | (1 << 7) | (1 << 9) | (1 << 11));
        }
        None => {
            h::set_schedule(0, 0);
            h::set_bias(0);
        }
    }
}
#[cfg(not(bigtools_verif))]
fn schedule(_d: Option<(u64, u8)>) {}

/// several chromosomes, each large enough (> 8 KiB of section data) that a later chromosome has
/// staged output in its temporary buffer before the real file is handed to it
fn big_chroms() -> BoxedStrategy<Case> {
    use proptest::sample::select;
    (
        proptest::collection::vec((700usize..2500, any::<u32>()), 2..=4),
        any::<bool>(),
        any::<bool>(),
        select(vec![64u32, 1024, 65535]),
        select(vec![1u8, 2, 4, 8]),
        gen::source_kind(),
        any::<bool>(),
        proptest::option::weighted(0.7, (any::<u64>(), 30u8..=100)),
    )
        .prop_map(|(chroms, compress, inmemory, ips, threads, source, multipass, delay)| {
            let mut cs = vec![];
            for (ci, (n, seed)) in chroms.iter().enumerate() {
                let mut x = *seed as u64 | 1;
                let mut pos = 0u32;
                let mut vals = Vec::with_capacity(*n);
                for _ in 0..*n {
                    x ^= x << 13;
                    x ^= x >> 7;
                    x ^= x << 17;
                    let gap = (x % 3) as u32;
                    let len = 1 + ((x >> 8) % 5) as u32;
                    let v = f32::from_bits(((x >> 16) as u32) & 0xbf7f_ffff);
                    vals.push(BwVal { s: pos + gap, e: pos + gap + len, v });
                    pos += gap + len;
                }
                cs.push(BwChrom { name: format!("big{}", ci), size: pos + 3, vals });
            }
            let mut opts = Opts::default();
            opts.compress = compress;
            opts.inmemory = inmemory;
            opts.items_per_slot = ips;
            opts.threads = threads;
            opts.source = source;
            opts.multipass = multipass;
            opts.channel_size = 100;
            opts.zoom = ZoomSpec::Manual(vec![256, 4096]);
            Case { input: BwInput { chroms: cs, unused: vec![] }, opts, k1_nudged: 0, delay }
        })
        .boxed()
}

pub fn big_case(n_items: usize, ips: u32, n_chroms: usize) -> Case {
    let mut chroms = vec![];
    for ci in 0..n_chroms {
        let per = n_items / n_chroms;
        let mut vals = Vec::with_capacity(per);
        let mut pos = 0u32;
        for i in 0..per {
            let gap = (i % 3) as u32;
            let len = 1 + (i % 5) as u32;
            vals.push(BwVal {
                s: pos + gap,
                e: pos + gap + len,
                v: ((i * 7 + ci) % 1000) as f32 / 4.0 - 100.0,
            });
            pos += gap + len;
        }
        chroms.push(BwChrom {
            name: format!("c{:04}", ci),
            size: pos + 10,
            vals,
        });
    }
    let mut opts = Opts::default();
    opts.items_per_slot = ips;
    opts.block_size = 256;
    opts.threads = 4;
    Case {
        input: BwInput {
            chroms,
            unused: vec![],
        },
        opts,
        k1_nudged: 0,
        delay: None,
    }
}

/// `n` identical zero-length items at one position (valid: sorted, non-overlapping) between two ordinary
/// values, all in one section when `ips` >= n + 2
pub fn repetitive_case(n: usize, ips: u32) -> Case {
    let mut vals = vec![BwVal { s: 1, e: 4, v: 2.5 }];
    for _ in 0..n {
        vals.push(BwVal { s: 5, e: 5, v: 1.0 });
    }
    vals.push(BwVal { s: 5, e: 9, v: -3.0 });
    let mut opts = Opts::default();
    opts.items_per_slot = ips;
    Case { input: BwInput { chroms: vec![BwChrom { name: "chrR".into(), size: 100, vals }], unused: vec![] }, opts, k1_nudged: 0, delay: None }
}

pub fn with_block_size(mut c: Case, block_size: u32) -> Case {
    c.opts.block_size = block_size;
    c
}

impl Prop for C01 {
    type Case = Case;
    const ID: &'static str = "C01";
    fn rule() -> String {
        "generated (layout, options, call shape) triples written with BigWigWrite into memory and read back; \
         non-trivial = >= 2 sections in one chromosome, or >= 2 chromosomes, or an index with >= 2 levels; \
         distinct = distinct case JSON. Labels give the marginal distribution over every option value."
            .into()
    }
    fn technique() -> String {
        "property-based round trip (proptest strategies, model oracle), sharded over worker processes".into()
    }
    fn assumptions() -> Vec<String> {
        vec![
            "chromosome names: non-empty, no TAB/LF/NUL/whitespace, <= 40 bytes; each chromosome is one contiguous run".into(),
            "positions over the whole u32 range (one layout in seven starts near 2^31, at 3e9 or just below 2^32); values finite".into(),
            "manual zoom lists: mostly ascending and distinct, one in four in arbitrary order, possibly with a repeated size or a zero (a public option with no stated order)".into(),
            "a writer refusal of generated input is counted (label writer-refused), not judged: no listed property says valid input must be accepted".into(),
        ]
    }
    fn cases(tier: Tier) -> u64 {
        tier.pick(20_000, 80_000)
    }
    fn strategy(tier: Tier) -> BoxedStrategy<Case> {
        prop_oneof![
            12 => gen::bw_case(tier, false).prop_map(make_case),
            1 => big_chroms(),
        ]
        .boxed()
    }
    fn fixed_cases(tier: Tier) -> Vec<Case> {
        // the upper end of the items_per_slot range (the per-section item count is a u16):
        // exactly one full section, one item more, and a second partly filled section
        let mut v = vec![
            big_case(3000, 7, 3),
            big_case(600, 1, 300),
            big_case(65_535, 65535, 1),
            big_case(65_536, 65535, 1),
            big_case(70_000, 65535, 1),
            // scale thresholds of the index: one leaf node with thousands of entries (fan-out 4096),
            // a non-leaf entry spanning hundreds of chromosomes (one section per chromosome)
            with_block_size(big_case(3000, 1, 1), 4096),
            with_block_size(big_case(70_000, 8, 1), 65535),
            big_case(300, 1024, 300),
            big_case(1000, 1024, 1000),
            // a section that compresses several hundred times: thousands of identical zero-length items
            repetitive_case(6000, 8192),
            repetitive_case(3000, 65535),
        ];
        if tier == Tier::Thorough {
            v.push(big_case(140_000, 65535, 2));
            v.push(big_case(200_000, 65534, 1));
        }
        v
    }
    fn probes() -> Vec<(String, String, Case)> {
        vec![(
            "K1".into(),
            crate::findings::what("K1"),
            Case {
                input: BwInput {
                    chroms: vec![BwChrom {
                        name: "chr1".into(),
                        size: 10,
                        vals: vec![
                            BwVal { s: 0, e: 0, v: 1.0 },
                            BwVal { s: 2, e: 5, v: 2.0 },
                            BwVal { s: 10, e: 10, v: 3.0 },
                        ],
                    }],
                    unused: vec![],
                },
                opts: Opts::default(),
                k1_nudged: 0,
                delay: None,
            },
        )]
    }
    fn check(case: &Case, obs: &mut Obs) -> Result<(), String> {
        let input = &case.input;
        let o = &case.opts;
        gen::label_opts(o, obs);
        let (max_sections, depth) = label_shape_bw(input, o, obs);
        obs.label_if(case.k1_nudged > 0, "excluded-K1-nudged");
        let sink = SharedSink::new();
        schedule(case.delay);
        obs.label_if(case.delay.is_some(), "delay-schedule-consumer-held-back");
        let wr = drive::write_bw(input, o, sink.clone());
        schedule(None);
        if let Err(e) = wr {
            obs.label("writer-refused");
            obs.notes.push(format!("writer refused generated input: {}", e));
            return Ok(());
        }
        obs.nontrivial = max_sections >= 2 || input.chroms.len() >= 2 || depth >= 2;
        let bytes = sink.bytes();
        let mut r = open_bw(bytes)?;
        check_chrom_table(r.chroms(), &bw_expected_chroms(input))?;
        for c in &input.chroms {
            let got = read_bw_full(&mut r, c)?;
            if !same_vals(&got, &c.vals) {
                return Err(format!(
                    "chromosome {:?}: full-span read differs from input: {}",
                    c.name,
                    first_diff_vals(&got, &c.vals)
                ));
            }
            obs.evals += 1;
            if c.size <= 400_000 {
                let vals = r
                    .values(&c.name, 0, c.size)
                    .map_err(|e| format!("values({:?},0,{}) failed: {}", c.name, c.size, e))?;
                let want = c.per_base(0, c.size);
                if vals.len() != want.len() {
                    return Err(format!("values() length {} != {}", vals.len(), want.len()));
                }
                for (i, (g, w)) in vals.iter().zip(want.iter()).enumerate() {
                    let ok = match w {
                        None => g.is_nan(),
                        Some(w) => g.to_bits() == w.to_bits(),
                    };
                    if !ok {
                        return Err(format!(
                            "values({:?},0,{})[{}] = {:?}, model says {:?}",
                            c.name, c.size, i, g, w
                        ));
                    }
                }
                obs.evals += 1;
            }
        }
        Ok(())
    }
}
