//! C03 — bigWig range queries return exactly the overlapping values, clipped, in order;
//! same through the caching reader, a reopened reader, and after any earlier queries
use super::c01;
use super::common::*;
use crate::drive;
use crate::gen;
use crate::model::*;
use crate::runner::{Obs, Prop, Tier};
use crate::sink::{MemFile, SharedSink};
use bigtools::utils::reopen::Reopen;
use bigtools::{BBIFileRead, BigWigRead, CachedBBIFileRead};
use proptest::prelude::*;
use serde::{Deserialize, Serialize};

#[derive(Serialize, Deserialize, Clone, Copy, Debug, PartialEq)]
pub enum PosSel {
    /// boundary of an item: scaled item index, start/end, offset -1/0/+1
    Item { idx: u16, end: bool, delta: i8 },
    /// fraction of the chromosome length
    Frac(u16),
    Zero,
    Size,
}

pub fn scale(idx: u16, len: usize) -> usize {
    // monotone index mapping (shrinks well)
    ((idx as usize) * len) >> 16
}

impl PosSel {
    pub fn resolve(&self, bounds: &[(u32, u32)], size: u32) -> u32 {
        let p: i64 = match self {
            PosSel::Zero => 0,
            PosSel::Size => size as i64,
            PosSel::Frac(f) => ((*f as u64 * size as u64) >> 16) as i64,
            PosSel::Item { idx, end, delta } => {
                if bounds.is_empty() {
                    0
                } else {
                    let it = bounds[scale(*idx, bounds.len())];
                    (if *end { it.1 } else { it.0 }) as i64 + *delta as i64
                }
            }
        };
        p.clamp(0, size as i64) as u32
    }
}

pub fn pos_sel() -> BoxedStrategy<PosSel> {
    prop_oneof![
        6 => (any::<u16>(), any::<bool>(), -1i8..=1).prop_map(|(idx, end, delta)| PosSel::Item { idx, end, delta }),
        2 => any::<u16>().prop_map(PosSel::Frac),
        1 => Just(PosSel::Zero),
        1 => Just(PosSel::Size),
    ]
    .boxed()
}

#[derive(Serialize, Deserialize, Clone, Debug, PartialEq)]
pub enum QOp {
    Interval { c: u16, a: PosSel, b: PosSel },
    Values { c: u16, a: PosSel, b: PosSel },
    Zoom { c: u16, a: PosSel, b: PosSel, level: u8 },
    /// a range strictly inside value #idx (clips it on both sides when the value is long enough)
    InsideValue { c: u16, idx: u16, frac: u16, width: u8 },
    Reopen,
    /// repeat an earlier operation (scaled index into the history so far)
    Repeat(u16),
    /// query every item of every chromosome one by one (crosses the 5000-block cache limit)
    SweepItems,
}

pub fn qop() -> BoxedStrategy<QOp> {
    prop_oneof![
        6 => (any::<u16>(), pos_sel(), pos_sel()).prop_map(|(c, a, b)| QOp::Interval { c, a, b }),
        3 => (any::<u16>(), pos_sel(), pos_sel()).prop_map(|(c, a, b)| QOp::Values { c, a, b }),
        1 => (any::<u16>(), pos_sel(), pos_sel(), any::<u8>()).prop_map(|(c, a, b, level)| QOp::Zoom { c, a, b, level }),
        3 => (any::<u16>(), any::<u16>(), any::<u16>(), 0u8..=30).prop_map(|(c, idx, frac, width)| QOp::InsideValue { c, idx, frac, width }),
        1 => Just(QOp::Reopen),
        3 => any::<u16>().prop_map(QOp::Repeat),
    ]
    .boxed()
}

#[derive(Serialize, Deserialize, Clone, Debug)]
pub struct Case {
    pub file: c01::Case,
    pub history: Vec<QOp>,
}

pub trait BwQ {
    fn interval(&mut self, c: &str, s: u32, e: u32) -> Result<Vec<BwVal>, String>;
    fn values(&mut self, c: &str, s: u32, e: u32) -> Result<Vec<f32>, String>;
    fn zoom(&mut self, c: &str, s: u32, e: u32, level: u32) -> Result<Vec<(u32, u32, u64)>, String>;
    fn levels(&self) -> Vec<u32>;
    fn reopen_self(&mut self) -> Result<(), String>;
}

impl<R: BBIFileRead + Reopen> BwQ for BigWigRead<R> {
    fn interval(&mut self, c: &str, s: u32, e: u32) -> Result<Vec<BwVal>, String> {
        let it = self
            .get_interval(c, s, e)
            .map_err(|er| format!("get_interval({:?},{},{}) failed: {}", c, s, e, er))?;
        it.map(|v| v.map(|v| BwVal { s: v.start, e: v.end, v: v.value }))
            .collect::<Result<Vec<_>, _>>()
            .map_err(|er| format!("get_interval({:?},{},{}) item failed: {}", c, s, e, er))
    }
    fn values(&mut self, c: &str, s: u32, e: u32) -> Result<Vec<f32>, String> {
        BigWigRead::values(self, c, s, e).map_err(|er| format!("values({:?},{},{}) failed: {}", c, s, e, er))
    }
    fn zoom(&mut self, c: &str, s: u32, e: u32, level: u32) -> Result<Vec<(u32, u32, u64)>, String> {
        let it = self
            .get_zoom_interval(c, s, e, level)
            .map_err(|er| format!("get_zoom_interval failed: {}", er))?;
        it.map(|v| v.map(|v| (v.start, v.end, v.summary.bases_covered)))
            .collect::<Result<Vec<_>, _>>()
            .map_err(|er| format!("get_zoom_interval item failed: {}", er))
    }
    fn levels(&self) -> Vec<u32> {
        self.info().zoom_headers.iter().map(|z| z.reduction_level).collect()
    }
    fn reopen_self(&mut self) -> Result<(), String> {
        let n = self.reopen().map_err(|e| format!("reopen failed: {}", e))?;
        *self = n;
        Ok(())
    }
}

pub struct C03;

/// judge one interval answer against the model (DESIGN 1.4 rule 2 for zero-length items)
pub fn judge_interval(ch: &BwChrom, s: u32, e: u32, got: &[BwVal], who: &str) -> Result<(), String> {
    let want = ch.range_strict(s, e);
    let pos: Vec<BwVal> = got.iter().filter(|v| v.e > v.s).cloned().collect();
    if !same_vals(&pos, &want) {
        return Err(format!(
            "{}: get_interval({:?},{},{}) differs from the model: {}",
            who,
            ch.name,
            s,
            e,
            first_diff_vals(&pos, &want)
        ));
    }
    for z in got.iter().filter(|v| v.e == v.s) {
        // a zero-length answer is either a stored zero-length value inside / touching the range, or
        // (empty range only) the clipping artefact of a value containing / touching the point; a
        // positive-length value can never be clipped to nothing by a non-empty range it overlaps
        let ok = z.s >= s
            && z.s <= e
            && ch.vals.iter().any(|v| {
                v.v.to_bits() == z.v.to_bits() && ((v.s == v.e && v.s == z.s) || (s == e && v.s <= z.s && z.s <= v.e))
            });
        if !ok {
            return Err(format!(
                "{}: get_interval({:?},{},{}) returned the zero-length item {:?} which no stored value justifies",
                who, ch.name, s, e, z
            ));
        }
    }
    if got.windows(2).any(|w| w[0].s > w[1].s) {
        return Err(format!("{}: get_interval({:?},{},{}) not in ascending order: {:?}", who, ch.name, s, e, got));
    }
    Ok(())
}

pub fn judge_values(ch: &BwChrom, s: u32, e: u32, got: &[f32], who: &str) -> Result<(), String> {
    let want = ch.per_base(s, e);
    if got.len() != want.len() {
        return Err(format!(
            "{}: values({:?},{},{}) has {} entries, expected {}",
            who,
            ch.name,
            s,
            e,
            got.len(),
            want.len()
        ));
    }
    for (i, (g, w)) in got.iter().zip(want.iter()).enumerate() {
        let ok = match w {
            None => g.is_nan(),
            Some(w) => g.to_bits() == w.to_bits(),
        };
        if !ok {
            return Err(format!(
                "{}: values({:?},{},{})[{}] = {:?}, model says {:?}",
                who, ch.name, s, e, i, g, w
            ));
        }
    }
    Ok(())
}

impl Prop for C03 {
    type Case = Case;
    const ID: &'static str = "C03";
    fn rule() -> String {
        "a C01 file plus a history of 5..60 operations (get_interval, values, get_zoom_interval, reopen, repeat-an-earlier-operation) with coordinates biased to value \
         boundaries +-1, empty ranges, 0 and the chromosome end; the same history runs on a plain reader, a cached reader and a reopened reader; every answer is compared \
         with the model (clipped positive-length overlaps bit-exact, ascending; zero-length items optional but must be justified: a stored zero-length value at that point, or - for an empty range only - a stored value containing or touching the point; per-base array NaN where no data) and the readers \
         with each other. Fixed case: 5200 single-item blocks queried one by one twice (crosses the 5000-entry cache reset). \
         non-trivial = history has a query clipping one value on both sides AND repeats an earlier query after others; distinct = distinct case JSON"
            .into()
    }
    fn technique() -> String {
        "model-based testing over generated operation histories (proptest vec of ops + interpreter, three readers differential)".into()
    }
    fn assumptions() -> Vec<String> {
        vec![
            "values() is only requested for ranges <= 300k bases".into(),
            "zoom answers are only checked for agreement between the readers here (C07 judges their content)".into(),
        ]
    }
    fn cases(tier: Tier) -> u64 {
        tier.pick(20_000, 60_000)
    }
    fn strategy(tier: Tier) -> BoxedStrategy<Case> {
        (
            gen::bw_case(tier, false).prop_map(c01::make_case),
            proptest::collection::vec(qop(), 5..=60),
        )
            .prop_map(|(file, history)| Case { file, history })
            .boxed()
    }
    fn fixed_cases(_tier: Tier) -> Vec<Case> {
        // 5200 single-item blocks in one chromosome
        let mut vals = vec![];
        for i in 0..5200u32 {
            vals.push(BwVal { s: i * 4, e: i * 4 + 3, v: i as f32 });
        }
        let mut opts = Opts::default();
        opts.items_per_slot = 1;
        opts.block_size = 64;
        opts.zoom = ZoomSpec::Manual(vec![]);
        opts.compress = false;
        vec![Case {
            file: c01::Case {
                input: BwInput {
                    chroms: vec![BwChrom { name: "chr1".into(), size: 5200 * 4, vals }],
                    unused: vec![],
                },
                opts,
                k1_nudged: 0,
                delay: None,
            },
            history: vec![QOp::SweepItems, QOp::SweepItems, QOp::Reopen, QOp::SweepItems],
        },
        // exactly as many blocks as the caching reader keeps (5000): the sweep fills the cache to the brim,
        // the next query is a hit on a full cache; then one block more
        Case { file: c01::with_block_size(c01::big_case(5000, 1, 1), 64), history: vec![QOp::SweepItems, QOp::Interval { c: 0, a: PosSel::Zero, b: PosSel::Frac(3) }, QOp::SweepItems, QOp::Interval { c: 0, a: PosSel::Frac(30_000), b: PosSel::Size }] },
        Case { file: c01::with_block_size(c01::big_case(5001, 1, 1), 64), history: vec![QOp::SweepItems, QOp::Interval { c: 0, a: PosSel::Zero, b: PosSel::Frac(3) }, QOp::SweepItems] },
        // hundreds of chromosomes under one non-leaf index entry, every chromosome queried
        Case { file: c01::big_case(300, 1024, 300), history: vec![QOp::SweepItems, QOp::Reopen, QOp::SweepItems] },
        Case { file: c01::big_case(2000, 1, 1000), history: vec![QOp::SweepItems] },
        // one index leaf with thousands of entries
        Case { file: c01::with_block_size(c01::big_case(3000, 1, 1), 4096), history: vec![QOp::SweepItems] }]
    }
    fn check(case: &Case, obs: &mut Obs) -> Result<(), String> {
        let input = &case.file.input;
        let o = &case.file.opts;
        gen::label_opts(o, obs);
        label_shape_bw(input, o, obs);
        let sink = SharedSink::new();
        if let Err(e) = drive::write_bw(input, o, sink.clone()) {
            obs.label("writer-refused");
            obs.notes.push(format!("writer refused generated input: {}", e));
            return Ok(());
        }
        let bytes = sink.bytes();
        let plain = open_bw(bytes.clone())?;
        let cached = open_bw(bytes.clone())?.cached();
        let reopened = open_bw(bytes)?.reopen().map_err(|e| format!("reopen failed: {}", e))?;
        let mut readers: Vec<(&str, Box<dyn BwQ>)> = vec![
            ("plain reader", Box::new(plain)),
            ("cached reader", Box::new(cached)),
            ("reopened reader", Box::new(reopened)),
        ];
        let bounds: Vec<Vec<(u32, u32)>> = input
            .chroms
            .iter()
            .map(|c| c.vals.iter().map(|v| (v.s, v.e)).collect())
            .collect();
        // resolve the history into concrete operations (Repeat refers to resolved ones)
        #[derive(Clone, Debug)]
        enum R {
            Interval(usize, u32, u32),
            Values(usize, u32, u32),
            Zoom(usize, u32, u32, u8),
            Reopen,
            Sweep,
        }
        let mut resolved: Vec<R> = vec![];
        let mut repeats = 0;
        for op in &case.history {
            let r = match op {
                QOp::Interval { c, a, b } | QOp::Values { c, a, b } | QOp::Zoom { c, a, b, .. } => {
                    let ci = scale(*c, input.chroms.len());
                    let ch = &input.chroms[ci];
                    let p = a.resolve(&bounds[ci], ch.size);
                    let q = b.resolve(&bounds[ci], ch.size);
                    let (s, e) = (p.min(q), p.max(q));
                    match op {
                        QOp::Interval { .. } => R::Interval(ci, s, e),
                        QOp::Values { .. } => {
                            if e - s > 300_000 {
                                R::Interval(ci, s, e)
                            } else {
                                R::Values(ci, s, e)
                            }
                        }
                        QOp::Zoom { level, .. } => R::Zoom(ci, s, e, *level),
                        _ => unreachable!(),
                    }
                }
                QOp::InsideValue { c, idx, frac, width } => {
                    let ci = scale(*c, input.chroms.len());
                    let ch = &input.chroms[ci];
                    let v = &ch.vals[scale(*idx, ch.vals.len())];
                    let len = (v.e - v.s) as u64;
                    let s = v.s + (((*frac as u64) * len) >> 16) as u32;
                    let e = s.saturating_add(*width as u32).min(ch.size);
                    R::Interval(ci, s.min(e), e)
                }
                QOp::Reopen => R::Reopen,
                QOp::SweepItems => R::Sweep,
                QOp::Repeat(k) => {
                    if resolved.is_empty() {
                        continue;
                    }
                    repeats += 1;
                    resolved[scale(*k, resolved.len())].clone()
                }
            };
            resolved.push(r);
        }
        let mut clip_both = false;
        let mut empties = 0;
        for r in &resolved {
            match r {
                R::Interval(ci, s, e) => {
                    let ch = &input.chroms[*ci];
                    if ch.vals.iter().any(|v| v.s < *s && *e < v.e && s < e) {
                        clip_both = true;
                    }
                    if s == e {
                        empties += 1;
                    }
                    let mut first: Option<Vec<BwVal>> = None;
                    for (who, rd) in readers.iter_mut() {
                        let got = rd.interval(&ch.name, *s, *e)?;
                        judge_interval(ch, *s, *e, &got, who)?;
                        match &first {
                            None => first = Some(got),
                            Some(f) => {
                                if !same_vals(f, &got) {
                                    return Err(format!(
                                        "{} and plain reader disagree on get_interval({:?},{},{}): {:?} vs {:?}",
                                        who, ch.name, s, e, got, f
                                    ));
                                }
                            }
                        }
                        obs.evals += 1;
                    }
                }
                R::Values(ci, s, e) => {
                    let ch = &input.chroms[*ci];
                    for (who, rd) in readers.iter_mut() {
                        let got = rd.values(&ch.name, *s, *e)?;
                        judge_values(ch, *s, *e, &got, who)?;
                        obs.evals += 1;
                    }
                }
                R::Zoom(ci, s, e, level) => {
                    let ch = &input.chroms[*ci];
                    let levels = readers[0].1.levels();
                    if levels.is_empty() {
                        continue;
                    }
                    let lv = levels[(*level as usize) % levels.len()];
                    let mut first: Option<Vec<(u32, u32, u64)>> = None;
                    for (who, rd) in readers.iter_mut() {
                        let got = rd.zoom(&ch.name, *s, *e, lv)?;
                        match &first {
                            None => first = Some(got),
                            Some(f) => {
                                if f != &got {
                                    return Err(format!(
                                        "{} and plain reader disagree on get_zoom_interval({:?},{},{},{})",
                                        who, ch.name, s, e, lv
                                    ));
                                }
                            }
                        }
                        obs.evals += 1;
                    }
                }
                R::Reopen => {
                    for (_, rd) in readers.iter_mut() {
                        rd.reopen_self()?;
                    }
                    obs.label("history-has-reopen");
                }
                R::Sweep => {
                    obs.label("cache-reset-sweep");
                    for ch in &input.chroms {
                        for v in &ch.vals {
                            if v.e == v.s {
                                continue;
                            }
                            for (who, rd) in readers.iter_mut() {
                                let got = rd.interval(&ch.name, v.s, v.e)?;
                                judge_interval(ch, v.s, v.e, &got, who)?;
                                obs.evals += 1;
                            }
                        }
                    }
                }
            }
        }
        obs.label_if(clip_both, "query-clips-value-both-sides");
        obs.label_if(repeats > 0, "history-repeats-query");
        obs.label_if(empties > 0, "empty-range-query");
        obs.nontrivial = clip_both && repeats > 0;
        if case.history.contains(&QOp::SweepItems) {
            obs.nontrivial = true;
        }
        Ok(())
    }
}

pub type CachedMem = CachedBBIFileRead<MemFile>;
