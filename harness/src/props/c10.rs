//! C10 — any well-formed BBI file is read correctly, whoever wrote it
use super::c03::{judge_interval, judge_values};
use super::c04::judge_bb;
use super::common::*;
use crate::indep::decode;
use crate::indep::encode::*;
use crate::model::*;
use crate::runner::{Obs, Prop, Tier};
use crate::sink::MemFile;
use bigtools::{BBIRead, GenericBBIRead};
use proptest::prelude::*;
use proptest::sample::select;
use serde::{Deserialize, Serialize};

#[derive(Serialize, Deserialize, Clone, Debug)]
pub enum Content {
    Wig { blocks: Vec<(u32, WigBlock)> },
    Bed { entries: Vec<(u32, Vec<EncEntry>)>, autosql: String, field_count: u16 },
}

#[derive(Serialize, Deserialize, Clone, Debug)]
pub struct Case {
    pub chroms: Vec<EncChrom>,
    pub content: Content,
    pub params: EncParams,
}

pub struct C10;

struct ResetCap;
impl Drop for ResetCap {
    fn drop(&mut self) {
        crate::sink::set_read_cap(0);
    }
}

fn params() -> BoxedStrategy<EncParams> {
    (
        (any::<bool>(), any::<bool>(), 1u16..=4, select(vec![2u32, 3, 4, 16, 256]), 2u32..=8),
        (
            select(vec![1u32, 2, 3, 8, 64, 512]),
            prop_oneof![
                3 => Just(Placement::LevelOrder),
                1 => Just(Placement::Reverse),
                1 => Just(Placement::LeavesFirst),
                2 => any::<u32>().prop_map(Placement::Shuffled),
            ],
            prop_oneof![3 => Just(0u8), 1 => 1u8..=9],
            prop::bool::weighted(0.3),
            proptest::sample::subsequence(vec![4u32, 16, 50, 256, 1000], 0..=3),
            any::<bool>(),
            prop::bool::weighted(0.8),
            any::<bool>(),
            prop::bool::weighted(0.25),
            prop::bool::weighted(0.3),
        ),
    )
        .prop_map(
            |((big_endian, compress, version, chrom_block, rtree_block), (items_per_slot, placement, pad, nonleaf_last, zooms, count_u32, end_magic, zoom_count_prefix, no_summary, ragged))| EncParams {
                big_endian,
                compress,
                version,
                chrom_block,
                rtree_block,
                items_per_slot,
                placement,
                pad,
                nonleaf_last,
                zooms,
                count_u32,
                end_magic,
                zoom_count_prefix,
                no_summary,
                ragged,
            },
        )
        .boxed()
}

fn chrom_set(max: usize) -> BoxedStrategy<Vec<EncChrom>> {
    (proptest::collection::btree_set("[A-Za-z0-9_.]{1,9}", 1..=max), any::<bool>(), any::<u32>())
        .prop_map(|(names, permute, seed)| {
            let n = names.len();
            let mut ids: Vec<u32> = (0..n as u32).collect();
            if permute {
                let mut x = seed as u64 | 1;
                for i in (1..n).rev() {
                    x ^= x << 13;
                    x ^= x >> 7;
                    x ^= x << 17;
                    ids.swap(i, (x % (i as u64 + 1)) as usize);
                }
            }
            names
                .into_iter()
                .zip(ids)
                .map(|(name, id)| EncChrom { name, size: 0, id })
                .collect()
        })
        .boxed()
}

fn dy() -> BoxedStrategy<f32> {
    crate::gen::finite_f32()
}

/// a sequence of blocks for one chromosome, positions increasing
fn wig_blocks(ips: usize) -> BoxedStrategy<Vec<WigBlock>> {
    let n = 1usize..=ips.min(12).max(1);
    let bed = proptest::collection::vec((0u32..30, 1u32..40, dy()), n.clone()).prop_map(|v| (1u8, v.into_iter().map(|(g, l, x)| (g, l, x)).collect::<Vec<_>>(), 0u32, 0u32));
    let var = (1u32..20, proptest::collection::vec((0u32..30, dy()), n.clone())).prop_map(|(span, v)| (2u8, v.into_iter().map(|(g, x)| (g, 0, x)).collect::<Vec<_>>(), span, 0u32));
    let fixed = (1u32..20, 0u32..15, proptest::collection::vec(dy(), n)).prop_map(|(span, extra, v)| (3u8, v.into_iter().map(|x| (0, 0, x)).collect::<Vec<_>>(), span, span + extra));
    proptest::collection::vec((0u32..200, prop_oneof![bed, var, fixed]), 1..=8)
        .prop_map(|blocks| {
            let mut pos = 0u32;
            let mut out = vec![];
            for (gap, (kind, items, span, step)) in blocks {
                pos += gap;
                match kind {
                    1 => {
                        let mut v = vec![];
                        for (g, l, x) in items {
                            let s = pos + g;
                            v.push(Item { s, e: s + l, v: x });
                            pos = s + l;
                        }
                        out.push(WigBlock::Bed(v));
                    }
                    2 => {
                        let mut v = vec![];
                        for (g, _, x) in items {
                            let s = pos + g;
                            v.push((s, x));
                            pos = s + span;
                        }
                        out.push(WigBlock::Var { span, items: v });
                    }
                    _ => {
                        let n = items.len() as u32;
                        out.push(WigBlock::Fixed { start: pos, step, span, vals: items.into_iter().map(|i| i.2).collect() });
                        pos = pos + step * (n - 1) + span;
                    }
                }
            }
            out
        })
        .boxed()
}

fn bed_entries() -> BoxedStrategy<Vec<EncEntry>> {
    proptest::collection::vec((0u32..40, 1u32..400, "[A-Za-z0-9_.+-]{0,6}(\t[ -~]{0,5}[!-~])?"), 1..=40)
        .prop_map(|v| {
            let mut start = 0u32;
            v.into_iter()
                .map(|(d, l, rest)| {
                    start += d;
                    EncEntry { s: start, e: start + l, rest }
                })
                .collect()
        })
        .boxed()
}

impl Prop for C10 {
    type Case = Case;
    const ID: &'static str = "C10";
    fn rule() -> String {
        "files emitted by an independent encoder (std + miniz_oxide, no bigtools code) over {little, big endian} x {zlib, raw} x bigWig sections of type 1, 2 and 3 mixed per file x chromosome-tree block sizes (1..3 level B+ trees, ids in key order or permuted) \
         x R-tree {fan-out 2..8, depth 1..4, node placement: level order, reverse, leaves first, shuffled, padding between nodes, an inner node last in the file, leaves at different depths} x version 1..4 (v1: no total summary; v2..4: with, or without = totalSummaryOffset 0) x with/without zoom levels x 4-byte (UCSC) or 8-byte section count; \
         bigBed likewise with overlapping entries. Each file is first accepted by the independent decoder (encoder self-check). Oracle = the encoded content: open (typed and generic), chromosome table as a set with sizes, summary and item count, \
         full-span and boundary range queries (C03/C04 oracles), per-base arrays, zoom queries (every intersecting record returned, none wholly outside), plain and cached readers. \
         non-trivial = big-endian OR a type-2/3 section OR a multi-level chromosome tree; distinct = distinct case JSON"
            .into()
    }
    fn technique() -> String {
        "property-based differential: generated content + generated layout through an independent encoder, read back with the readers under test".into()
    }
    fn assumptions() -> Vec<String> {
        vec![
            "the encoder follows the published format as laid out by UCSC tools (root node right after the index header; bigWig section count 4 bytes in UCSC layout)".into(),
            "chromosome order is the tree's key order: the table is compared as a set".into(),
        ]
    }
    fn cases(tier: Tier) -> u64 {
        tier.pick(100_000, 1_000_000)
    }
    fn fixed_cases(_tier: Tier) -> Vec<Case> {
        // scale: sections with thousands of items (legal up to 65535 per section), hundreds of chromosomes
        let mut v = vec![];
        for (big_endian, compress) in [(false, false), (true, true)] {
            let mut blocks: Vec<(u32, WigBlock)> = vec![];
            let mut pos = 0u32;
            let mut bed = |n: u32, pos: &mut u32| {
                let mut items = vec![];
                for i in 0..n {
                    items.push(Item { s: *pos, e: *pos + 2, v: (i % 977) as f32 / 8.0 });
                    *pos += 3;
                }
                WigBlock::Bed(items)
            };
            blocks.push((0, bed(6000, &mut pos)));
            blocks.push((0, bed(65535, &mut pos)));
            let var: Vec<(u32, f32)> = (0..6000u32).map(|i| (pos + i * 4, (i % 13) as f32)).collect();
            pos += 6000 * 4;
            blocks.push((0, WigBlock::Var { span: 2, items: var }));
            blocks.push((0, WigBlock::Fixed { start: pos, step: 3, span: 2, vals: (0..65535u32).map(|i| (i % 31) as f32 - 4.0).collect() }));
            pos += 65535 * 3;
            let mut chroms = vec![EncChrom { name: "big".into(), size: pos + 10, id: 0 }];
            for c in 1..300u32 {
                chroms.push(EncChrom { name: format!("c{:03}", c), size: 1000, id: c });
                blocks.push((c, WigBlock::Bed(vec![Item { s: 10, e: 20 + c, v: c as f32 }])));
            }
            v.push(Case {
                chroms,
                content: Content::Wig { blocks },
                params: EncParams {
                    big_endian,
                    compress,
                    version: 4,
                    chrom_block: 256,
                    rtree_block: 256,
                    items_per_slot: 65535,
                    placement: Placement::LevelOrder,
                    pad: 0,
                    nonleaf_last: false,
                    zooms: vec![],
                    count_u32: false,
                    end_magic: true,
                    zoom_count_prefix: false,
                    no_summary: false,
                    ragged: false,
                },
            });
        }
        v
    }
    fn strategy(_tier: Tier) -> BoxedStrategy<Case> {
        let wig = params()
            .prop_flat_map(|p| {
                let ips = p.items_per_slot as usize;
                (chrom_set(7), Just(p), proptest::collection::vec(wig_blocks(ips), 7))
            })
            .prop_map(|(mut chroms, params, per_chrom)| {
                let mut blocks = vec![];
                for (c, bl) in chroms.iter_mut().zip(per_chrom.into_iter()) {
                    let end = bl.iter().flat_map(|b| b.items()).map(|i| i.e).max().unwrap_or(1);
                    c.size = end + (end % 7);
                    for b in bl {
                        blocks.push((c.id, b));
                    }
                }
                blocks.sort_by_key(|(c, b)| (*c, b.items().first().map(|i| i.s).unwrap_or(0)));
                Case { chroms, content: Content::Wig { blocks }, params }
            });
        let bed = (params(), chrom_set(5), proptest::collection::vec(bed_entries(), 5), 3u16..=9).prop_map(|(params, mut chroms, per_chrom, fc)| {
            let mut entries = vec![];
            for (c, es) in chroms.iter_mut().zip(per_chrom.into_iter()) {
                let end = es.iter().map(|e| e.e).max().unwrap_or(1);
                c.size = end + 3;
                entries.push((c.id, es));
            }
            entries.sort_by_key(|e| e.0);
            Case {
                chroms,
                content: Content::Bed { entries, autosql: "table t \"x\" ( string chrom; \"c\" uint chromStart; \"s\" uint chromEnd; \"e\" )".into(), field_count: fc },
                params,
            }
        });
        prop_oneof![3 => wig, 2 => bed].boxed()
    }
    fn check(case: &Case, obs: &mut Obs) -> Result<(), String> {
        let p = &case.params;
        obs.label(if p.big_endian { "big-endian" } else { "little-endian" });
        obs.label(if p.compress { "zlib" } else { "raw" });
        obs.label(&format!("version={}", p.version));
        obs.label_if(p.version >= 2 && p.no_summary, "v2+-without-total-summary");
        obs.label_if(p.ragged, "ragged-rtree-requested");
        let cap = match (p.rtree_block + p.chrom_block + p.items_per_slot + p.pad as u32) % 10 { 3 => 5usize, 7 => 64, _ => 0 };
        crate::sink::set_read_cap(cap);
        obs.label_if(cap > 0, "source-with-short-reads");
        let _reset = ResetCap;
        obs.label(&format!("placement={:?}", p.placement).split('(').next().unwrap().to_string());
        obs.label_if(p.nonleaf_last, "main-index-last-inner-node-last");
        obs.label_if(p.count_u32, "count-4-bytes");
        obs.label_if(!p.end_magic, "no-end-signature");
        let enc = match &case.content {
            Content::Wig { blocks } => encode_bw(&case.chroms, blocks, p),
            Content::Bed { entries, autosql, field_count } => encode_bb(&case.chroms, entries, autosql, *field_count, p),
        };
        obs.label(&format!("index-node-levels={}", enc.index_levels.min(5)));
        let d = decode::decode_lenient(&enc.bytes).map_err(|e| format!("HARNESS: the independent decoder rejects the independent encoder's file: {}", e))?;
        obs.label(&format!("chrom-tree-levels={}", d.chrom_tree_levels.min(4)));
        let sorted_ids = {
            let mut v: Vec<&EncChrom> = case.chroms.iter().collect();
            v.sort_by(|a, b| a.name.as_bytes().cmp(b.name.as_bytes()));
            v.windows(2).all(|w| w[0].id < w[1].id)
        };
        obs.label_if(!sorted_ids, "ids-permuted");
        let want_chroms: std::collections::BTreeSet<(String, u32)> = case.chroms.iter().map(|c| (c.name.clone(), c.size)).collect();
        let name_of = |id: u32| case.chroms.iter().find(|c| c.id == id).unwrap();
        // generic open
        let g = GenericBBIRead::open(MemFile::new(enc.bytes.clone())).map_err(|e| format!("GenericBBIRead::open failed: {}", e))?;
        let got_chroms: std::collections::BTreeSet<(String, u32)> = g.chroms().iter().map(|c| (c.name.clone(), c.length)).collect();
        if got_chroms != want_chroms {
            return Err(format!("chromosome table {:?}, the file encodes {:?}", got_chroms, want_chroms));
        }
        match &case.content {
            Content::Wig { blocks } => {
                if g.bigwig().is_none() {
                    return Err("GenericBBIRead did not recognise a bigWig".into());
                }
                let typed = blocks.iter().any(|(_, b)| b.kind() != 1);
                obs.label_if(typed, "section-type-2-or-3");
                obs.nontrivial = p.big_endian || typed || d.chrom_tree_levels >= 2;
                // model per chromosome
                let mut models: Vec<BwChrom> = case
                    .chroms
                    .iter()
                    .map(|c| BwChrom { name: c.name.clone(), size: c.size, vals: vec![] })
                    .collect();
                for (cid, b) in blocks {
                    let ch = name_of(*cid);
                    let m = models.iter_mut().find(|m| m.name == ch.name).unwrap();
                    m.vals.extend(b.items().into_iter().map(|i| BwVal { s: i.s, e: i.e, v: i.v }));
                }
                for cached in [false, true] {
                    let who = if cached { "cached reader" } else { "plain reader" };
                    let mut plain = open_bw(enc.bytes.clone())?;
                    let mut cr = open_bw(enc.bytes.clone())?.cached();
                    // summary
                    let s = if cached { cr.get_summary() } else { plain.get_summary() }.map_err(|e| format!("get_summary failed: {}", e))?;
                    match enc.summary {
                        Some((n, mn, mx, sum, ss)) => {
                            if s.bases_covered != n || s.min_val != mn || s.max_val != mx || !close_f64(s.sum, sum, sum.abs()) || !close_f64(s.sum_squares, ss, ss.abs()) {
                                return Err(format!("{}: get_summary() = {:?}, the file encodes {:?}", who, s, enc.summary));
                            }
                        }
                        None => {
                            if s.bases_covered != 0 || s.sum != 0.0 {
                                return Err(format!("{}: the file has no total summary (offset 0) but get_summary() = {:?}", who, s));
                            }
                        }
                    }
                    if s.total_items != enc.data_count {
                        return Err(format!(
                            "{}: get_summary().total_items = {}, the file's section count is {} (count field is {} bytes wide)",
                            who,
                            s.total_items,
                            enc.data_count,
                            if p.count_u32 { 4 } else { 8 }
                        ));
                    }
                    for m in &models {
                        macro_rules! q {
                            ($s:expr, $e:expr) => {{
                                let it = if cached { cr.get_interval(&m.name, $s, $e).map(|i| i.collect::<Result<Vec<_>, _>>()) } else { plain.get_interval(&m.name, $s, $e).map(|i| i.collect::<Result<Vec<_>, _>>()) };
                                let v = it.map_err(|e| format!("{}: get_interval({:?},{},{}) failed: {}", who, m.name, $s, $e, e))?
                                    .map_err(|e| format!("{}: get_interval({:?},{},{}) item failed: {}", who, m.name, $s, $e, e))?;
                                let v: Vec<BwVal> = v.into_iter().map(|x| BwVal { s: x.start, e: x.end, v: x.value }).collect();
                                judge_interval(m, $s, $e, &v, who)?;
                                obs.evals += 1;
                            }};
                        }
                        q!(0, m.size);
                        for v in m.vals.iter().step_by((m.vals.len() / 5).max(1)) {
                            q!(v.s.saturating_sub(1), v.e);
                            q!(v.s, (v.e + 1).min(m.size));
                            q!(v.s + (v.e - v.s) / 2, v.e);
                        }
                        if m.size <= 100_000 {
                            let vals = if cached { cr.values(&m.name, 0, m.size) } else { plain.values(&m.name, 0, m.size) }
                                .map_err(|e| format!("{}: values({:?}) failed: {}", who, m.name, e))?;
                            judge_values(m, 0, m.size, &vals, who)?;
                        }
                        // zoom
                        for (res, recs) in &enc.zooms {
                            let cid = case.chroms.iter().find(|c| c.name == m.name).unwrap().id;
                            let crecs: Vec<&EncZoomRec> = recs.iter().filter(|r| r.chrom == cid).collect();
                            let mut ranges = vec![(0u32, u32::MAX)];
                            for r in crecs.iter().step_by((crecs.len() / 4).max(1)) {
                                ranges.push((r.start, r.end));
                                ranges.push((r.start + 1, r.end.saturating_sub(1).max(r.start + 1)));
                            }
                            for (s, e) in ranges {
                                let it = if cached { cr.get_zoom_interval(&m.name, s, e, *res).map(|i| i.collect::<Result<Vec<_>, _>>()) } else { plain.get_zoom_interval(&m.name, s, e, *res).map(|i| i.collect::<Result<Vec<_>, _>>()) };
                                let got = it.map_err(|er| format!("{}: get_zoom_interval({:?},{},{},{}) failed: {}", who, m.name, s, e, res, er))?
                                    .map_err(|er| format!("{}: get_zoom_interval item failed: {}", who, er))?;
                                let mut gi = 0;
                                for r in &crecs {
                                    let strict = r.start < e && r.end > s;
                                    let incl = r.start <= e && r.end >= s;
                                    let present = gi < got.len()
                                        && got[gi].start == r.start
                                        && got[gi].end == r.end
                                        && got[gi].summary.bases_covered == r.valid as u64
                                        && (got[gi].summary.min_val as f32).to_bits() == r.min.to_bits()
                                        && (got[gi].summary.max_val as f32).to_bits() == r.max.to_bits()
                                        && (got[gi].summary.sum as f32).to_bits() == r.sum.to_bits()
                                        && (got[gi].summary.sum_squares as f32).to_bits() == r.sumsq.to_bits();
                                    if present {
                                        if !incl {
                                            return Err(format!("{}: zoom {} query ({:?},{},{}) returned a record wholly outside: {:?}", who, res, m.name, s, e, r));
                                        }
                                        gi += 1;
                                    } else if strict {
                                        return Err(format!(
                                            "{}: zoom {} query ({:?},{},{}) does not return the encoded record {:?} (got {} records)",
                                            who, res, m.name, s, e, r, got.len()
                                        ));
                                    }
                                }
                                if gi != got.len() {
                                    return Err(format!("{}: zoom {} query ({:?},{},{}) returned records that are not encoded in the file", who, res, m.name, s, e));
                                }
                                obs.evals += 1;
                            }
                        }
                    }
                }
                Ok(())
            }
            Content::Bed { entries, autosql, field_count } => {
                if g.bigbed().is_none() {
                    return Err("GenericBBIRead did not recognise a bigBed".into());
                }
                obs.nontrivial = p.big_endian || d.chrom_tree_levels >= 2;
                let models: Vec<BbChrom> = entries
                    .iter()
                    .map(|(cid, es)| {
                        let c = name_of(*cid);
                        BbChrom { name: c.name.clone(), size: c.size, entries: es.iter().map(|e| BbEntry { s: e.s, e: e.e, rest: e.rest.clone() }).collect() }
                    })
                    .collect();
                let mut plain = open_bb(enc.bytes.clone())?;
                let mut cr = open_bb(enc.bytes.clone())?.cached();
                if plain.info().header.field_count != *field_count {
                    return Err(format!("header field count {} read as {}", field_count, plain.info().header.field_count));
                }
                let sql = plain.autosql().map_err(|e| format!("autosql() failed: {}", e))?;
                if sql.as_deref() != Some(autosql.as_str()) {
                    return Err(format!("autosql() = {:?}, the file encodes {:?}", sql, autosql));
                }
                let n = plain.item_count().map_err(|e| format!("item_count failed: {}", e))?;
                if n != enc.data_count {
                    return Err(format!("item_count() = {}, the file encodes {}", n, enc.data_count));
                }
                let s = plain.get_summary().map_err(|e| format!("get_summary failed: {}", e))?;
                if let Some((bn, mn, mx, sum, ss)) = enc.summary {
                    if s.bases_covered != bn || s.min_val != mn || s.max_val != mx || s.sum != sum || s.sum_squares != ss {
                        return Err(format!("get_summary() = {:?}, the file encodes {:?}", s, enc.summary));
                    }
                } else if s.bases_covered != 0 || s.sum != 0.0 {
                    return Err(format!("the file has no total summary (offset 0) but get_summary() = {:?}", s));
                }
                for m in &models {
                    let mut ranges = vec![(0u32, m.size)];
                    for e in m.entries.iter().step_by((m.entries.len() / 6).max(1)) {
                        ranges.push((e.s, e.e));
                        ranges.push((e.s + (e.e - e.s) / 2, e.e));
                        ranges.push((e.e.saturating_sub(1), (e.e + 1).min(m.size)));
                    }
                    for (s, e) in ranges {
                        if s >= e {
                            continue;
                        }
                        let a = read_bb_range(&mut plain, &m.name, s, e)?;
                        judge_bb(m, s, e, &a, "plain reader")?;
                        let b = read_bb_range(&mut cr, &m.name, s, e)?;
                        if a != b {
                            return Err(format!("cached reader answers get_interval({:?},{},{}) differently", m.name, s, e));
                        }
                        obs.evals += 2;
                    }
                }
                Ok(())
            }
        }
    }
}
