//! C16 — command-line conversions round-trip records for any thread count and flag style
use super::c03::judge_interval;
use super::c04::judge_bb;
use crate::gen;
use crate::model::*;
use crate::runner::{mark_progress, Obs, Prop, Tier};
use proptest::prelude::*;
use proptest::sample::select;
use serde::{Deserialize, Serialize};
use std::process::Command;

#[derive(Serialize, Deserialize, Clone, Debug)]
pub enum Base {
    Bw(BwInput),
    Bb(BbInput),
}

#[derive(Serialize, Deserialize, Clone, Copy, Debug, PartialEq)]
pub enum Style {
    /// the dedicated binary (bedgraphtobigwig ...)
    Dedicated,
    /// `bigtools <subcommand> ...`
    Sub,
    /// dedicated binary invoked through a mixed-case name (bedGraphToBigWig)
    MixedCase,
    /// the multicall binary invoked through a mixed-case applet name
    MulticallMixedCase,
}

#[derive(Serialize, Deserialize, Clone, Debug)]
pub struct Flags {
    pub threads: u8,
    pub parallel: u8, // 0 auto, 1 yes, 2 no
    pub single_pass: bool,
    pub inmemory: bool,
    pub uncompressed: bool,
    pub block_size: Option<u32>,
    pub zooms: Option<Vec<u32>>,
    pub style: Style,
    /// UCSC spellings where they exist (-unc, -blockSize=N, -chrom=, -start=, -end=)
    pub ucsc: bool,
    pub back_threads: u8,
    pub back_inmemory: bool,
    pub back_style: Style,
    /// restrict the back conversion: (chromosome selector, a, b) as fractions of the chromosome
    pub restrict: Option<(u16, u16, u16)>,
    pub restrict_chrom_only: bool,
    /// 0 = --start and --end, 1 = only --start, 2 = only --end (when not chrom-only)
    #[serde(default)]
    pub restrict_which: u8,
    pub delay: Option<(u32, u8)>,
    /// the input text ends without a final newline
    #[serde(default)]
    pub no_final_newline: bool,
    /// bedGraph values are written as long decimals lying just beyond the midpoint between the
    /// neighbouring float and the intended one (the nearest float is still the intended one)
    #[serde(default)]
    pub long_decimals: bool,
    /// both output paths (the binary file and the text written on the way back) already exist and
    /// hold more bytes than the tools are about to write: an earlier, larger result of the same kind
    #[serde(default)]
    pub stale_outputs: bool,
}

#[derive(Serialize, Deserialize, Clone, Debug)]
pub struct Case {
    pub base: Base,
    pub flags: Flags,
}

pub struct C16;

fn bindir() -> Option<String> {
    std::env::var("VERIF_BIN").ok().filter(|d| std::path::Path::new(&format!("{}/bigtools", d)).exists())
}

fn mixed(name: &str) -> &'static str {
    match name {
        "bedgraphtobigwig" => "bedGraphToBigWig",
        "bigwigtobedgraph" => "bigWigToBedGraph",
        "bedtobigbed" => "bedToBigBed",
        "bigbedtobed" => "bigBedToBed",
        _ => "bigtools",
    }
}

/// program + leading args for a tool under an invocation style; symlinks live in `dir`
fn invoke(tool: &str, style: Style, dir: &std::path::Path) -> Result<(String, Vec<String>), String> {
    let bins = bindir().ok_or("tool binaries missing")?;
    match style {
        Style::Dedicated => Ok((format!("{}/{}", bins, tool), vec![])),
        Style::Sub => Ok((format!("{}/bigtools", bins), vec![tool.to_string()])),
        Style::MixedCase | Style::MulticallMixedCase => {
            let target = if style == Style::MixedCase { format!("{}/{}", bins, tool) } else { format!("{}/bigtools", bins) };
            let sub = dir.join(if style == Style::MixedCase { "ded" } else { "multi" });
            let _ = std::fs::create_dir_all(&sub);
            let link = sub.join(mixed(tool));
            if !link.exists() {
                std::os::unix::fs::symlink(&target, &link).map_err(|e| format!("symlink: {}", e))?;
            }
            Ok((link.to_string_lossy().to_string(), vec![]))
        }
    }
}

fn run(prog: &str, args: &[String], delay: Option<(u32, u8)>) -> Result<(i32, String), String> {
    mark_progress();
    let mut c = Command::new(prog);
    c.args(args).env("RUST_BACKTRACE", "0");
    if let Some((seed, intensity)) = delay {
        c.env("BIGTOOLS_VERIF_DELAY", format!("{}:{}", seed, intensity));
    }
    let o = c.output().map_err(|e| format!("cannot run {}: {}", prog, e))?;
    Ok((o.status.code().unwrap_or(-1), String::from_utf8_lossy(&o.stderr).to_string()))
}

/// A decimal text whose nearest f32 is `x`, chosen to sit a hair beyond the midpoint between `x` and its
/// neighbour on the side where a tie would round AWAY from `x` (only for odd mantissas and moderate
/// exponents; everything else is printed the ordinary way). Parsing it through f64 first rounds twice.
pub fn long_decimal(x: f32) -> String {
    let a = x.abs();
    if !(a >= 1e-3 && a < 1e9) || x.to_bits() & 1 == 0 {
        return format!("{}", x);
    }
    // neighbour towards zero; mid is exactly representable in f64
    let lo = f32::from_bits(a.to_bits() - 1);
    let mid = (lo as f64 + a as f64) / 2.0;
    // exact decimal expansion of mid (a dyadic rational with < 60 fractional digits here), then one more digit
    let mut t = format!("{:.60}", mid);
    t.push('1');
    let back: f32 = t.parse().unwrap_or(f32::NAN);
    if back.to_bits() != a.to_bits() {
        return format!("{}", x);
    }
    if x < 0.0 {
        format!("-{}", t)
    } else {
        t
    }
}

fn name_strategy() -> BoxedStrategy<String> {
    prop_oneof![
        6 => "chr[0-9]{1,2}",
        4 => "[A-Za-z0-9_.]{1,10}",
        2 => "chrUn_[A-Z]{2}[0-9]{3}v1",
        // names sharing a prefix with words some tools treat specially in the first column
        1 => proptest::sample::select(vec!["track7", "browser1", "trackhub", "browserX", "variableStep1", "fixedStep_2", "chrom", "chr", "NaN", "nan", "inf", "e5", "0", "1e3", "0x10", "-", "+", "chr1:100-200", "a:1-2", "HLA-A*01:01", "chr2:5", "x-y", "1:0-0"]).prop_map(|s| s.to_string()),
    ]
    .boxed()
}

pub fn canonical_bw(max_chroms: usize, max_items: usize) -> BoxedStrategy<BwInput> {
    (
        proptest::collection::btree_set(name_strategy(), 1..=max_chroms),
        proptest::collection::vec(gen::bw_vals(max_items), max_chroms),
    )
        .prop_map(|(names, layouts)| {
            let chroms = names
                .into_iter()
                .zip(layouts.into_iter())
                .map(|(name, (vals, size))| {
                    // canonical text: positive-length values only
                    let vals: Vec<BwVal> = vals.into_iter().filter(|v| v.e > v.s).collect();
                    let vals = if vals.is_empty() { vec![BwVal { s: 0, e: 1.min(size), v: 1.0 }] } else { vals };
                    BwChrom { name, size, vals }
                })
                .collect();
            BwInput { chroms, unused: vec![("unusedChrom".into(), 1234)] }
        })
        .boxed()
}

pub fn canonical_bb(max_chroms: usize, max_items: usize) -> BoxedStrategy<BbInput> {
    (
        proptest::collection::btree_set(name_strategy(), 1..=max_chroms),
        proptest::collection::vec(gen::bb_entries(max_items, true), max_chroms),
        0usize..=6,
    )
        .prop_map(|(names, layouts, ncols)| {
            let chroms = names
                .into_iter()
                .zip(layouts.into_iter())
                .map(|(name, (entries, size))| {
                    // one column count per file (a BED file has a fixed number of columns), no (0,0) entry
                    let entries: Vec<BbEntry> = entries
                        .into_iter()
                        .enumerate()
                        .map(|(i, mut e)| {
                            let mut cols: Vec<String> = e.rest.split('\t').filter(|c| !c.is_empty()).map(|c| c.to_string()).collect();
                            cols.resize(ncols, format!("v{}", i));
                            if let Some(last) = cols.last_mut() {
                                // the line parser trims trailing whitespace
                                let t = last.trim_end().to_string();
                                *last = if t.is_empty() { format!("w{}", i) } else { t };
                            }
                            e.rest = cols.join("\t");
                            if e.s == 0 && e.e == 0 {
                                e.e = 1;
                            }
                            e
                        })
                        .collect();
                    BbChrom { name, size, entries }
                })
                .collect();
            BbInput { chroms, unused: vec![], autosql: None }
        })
        .boxed()
}

fn flags() -> BoxedStrategy<Flags> {
    let style = || select(vec![Style::Dedicated, Style::Dedicated, Style::Sub, Style::MixedCase, Style::MulticallMixedCase]);
    (
        (1u8..=16, 0u8..3, any::<bool>(), any::<bool>(), any::<bool>()),
        (
            proptest::option::of(select(vec![2u32, 3, 16, 256, 1024])),
            proptest::option::of(proptest::sample::subsequence(vec![5u32, 10, 40, 160, 1000, 10000], 1..=4)),
            style(),
            any::<bool>(),
        ),
        (1u8..=16, any::<bool>(), style()),
        (proptest::option::of((any::<u16>(), any::<u16>(), any::<u16>())), prop::bool::weighted(0.3), proptest::option::of((any::<u32>(), 30u8..=100)), 0u8..3, prop::bool::weighted(0.3), prop::bool::weighted(0.25), prop::bool::weighted(0.25)),
    )
        .prop_map(|((threads, parallel, single_pass, inmemory, uncompressed), (block_size, zooms, style, ucsc), (back_threads, back_inmemory, back_style), (restrict, restrict_chrom_only, delay, restrict_which, no_final_newline, long_decimals, stale_outputs))| Flags {
            threads,
            parallel,
            single_pass,
            inmemory,
            uncompressed,
            block_size,
            zooms,
            style,
            ucsc,
            back_threads,
            back_inmemory,
            back_style,
            restrict,
            restrict_chrom_only,
            restrict_which,
            delay,
            no_final_newline,
            long_decimals,
            stale_outputs,
        })
        .boxed()
}

impl Prop for C16 {
    type Case = Case;
    const ID: &'static str = "C16";
    fn rule() -> String {
        "canonical multi-chromosome bedGraph / BED text (names [A-Za-z0-9_.]+, sorted; positive-length values; fixed column count) + chromosome-size file; bedgraphtobigwig then bigwigtobedgraph, bedtobigbed then bigbedtobed, \
         with -t 1..16, --parallel auto|yes|no, --single-pass, --inmemory, --uncompressed, --block-size, --zooms, invoked as the dedicated binary, as `bigtools <subcommand>`, through mixed-case names of both, and with UCSC spellings (-unc, -blockSize=N, -chrom=, -start=, -end=), optionally under a BIGTOOLS_VERIF_DELAY schedule, and with both output paths already holding an older, longer result; \
         oracle: exit status 0, records in order with numerically equal f32 values / byte-identical extra columns; restricted output (--chrom [--start --end]) equals the clipped range answer (bigWig) / the must-may answer (bigBed). \
         non-trivial = -t > 1 with --parallel yes and >= 3 chromosomes, OR a UCSC-style restricted query; distinct = distinct case JSON"
            .into()
    }
    fn technique() -> String {
        "property-based round trip through the real command-line binaries (generated inputs and flag sets), model oracle".into()
    }
    fn assumptions() -> Vec<String> {
        vec![
            "needs the CLI binaries built by ./check from the working tree".into(),
            "text values are written with Rust's shortest round-trip f32 formatting; only numeric equality is compared on the way back".into(),
        ]
    }
    fn cases(tier: Tier) -> u64 {
        tier.pick(8000, 60_000)
    }
    fn strategy(_tier: Tier) -> BoxedStrategy<Case> {
        prop_oneof![
            (canonical_bw(6, 40), flags()).prop_map(|(b, flags)| Case { base: Base::Bw(b), flags }),
            (canonical_bb(6, 40), flags()).prop_map(|(b, flags)| Case { base: Base::Bb(b), flags }),
        ]
        .boxed()
    }
    fn check(case: &Case, obs: &mut Obs) -> Result<(), String> {
        if bindir().is_none() {
            obs.label("tool-binaries-missing");
            return Err("the command-line binaries are not built (VERIF_BIN): ./check builds them".into());
        }
        let f = &case.flags;
        let dir = tempfile::Builder::new()
            .prefix("c16_")
            .tempdir_in(std::env::var("VERIF_TMP").unwrap_or_else(|_| std::env::temp_dir().to_string_lossy().to_string()))
            .map_err(|e| e.to_string())?;
        let p = |n: &str| dir.path().join(n).to_string_lossy().to_string();
        let is_bw = matches!(case.base, Base::Bw(_));
        // inputs
        let (text, sizes, nchroms): (String, String, usize) = match &case.base {
            Base::Bw(i) => {
                let (t, _) = if f.long_decimals {
                    obs.label("values-as-long-decimals");
                    let mut t = String::new();
                    for (c, v) in crate::drive::bw_items(i) {
                        t.push_str(&format!("{}\t{}\t{}\t{}\n", c, v.start, v.end, long_decimal(v.value)));
                    }
                    (t, vec![])
                } else {
                    crate::drive::bw_text(&crate::drive::bw_items(i))
                };
                let mut s = String::new();
                for c in &i.chroms {
                    s.push_str(&format!("{}\t{}\n", c.name, c.size));
                }
                for (n, z) in &i.unused {
                    s.push_str(&format!("{} {}\n", n, z));
                }
                (t, s, i.chroms.len())
            }
            Base::Bb(i) => {
                let (t, _) = crate::drive::bb_text(&crate::drive::bb_items(i));
                let mut s = String::new();
                for c in &i.chroms {
                    s.push_str(&format!("{}\t{}\n", c.name, c.size));
                }
                (t, s, i.chroms.len())
            }
        };
        let text = if f.no_final_newline { text.trim_end_matches('\n').to_string() } else { text };
        obs.label_if(f.no_final_newline, "input-without-final-newline");
        std::fs::write(p("in.txt"), &text).map_err(|e| e.to_string())?;
        std::fs::write(p("sizes"), &sizes).map_err(|e| e.to_string())?;
        if f.stale_outputs {
            // an earlier, larger result at both output paths: well-formed records of another run, so a tool
            // that does not start from an empty file leaves a tail that parses
            obs.label("output-paths-already-exist-and-are-longer");
            let mut old = text.clone();
            if !old.ends_with('\n') {
                old.push('\n');
            }
            for k in 0..400u32 {
                old.push_str(&if is_bw { format!("zzStale\t{}\t{}\t7.5\n", k * 10, k * 10 + 5) } else { format!("zzStale\t{}\t{}\told{}\n", k * 10, k * 10 + 5, k) });
            }
            std::fs::write(p("back.txt"), &old).map_err(|e| e.to_string())?;
            let mut oldbin = vec![0xA5u8; 256 * 1024 + text.len() * 4];
            oldbin[..4].copy_from_slice(&[0x26, 0xFC, 0x8F, 0x88]);
            std::fs::write(p("out.bb"), &oldbin).map_err(|e| e.to_string())?;
        }
        // forward
        let tool = if is_bw { "bedgraphtobigwig" } else { "bedtobigbed" };
        let (prog, mut args) = invoke(tool, f.style, dir.path())?;
        args.extend([p("in.txt"), p("sizes"), p("out.bb")]);
        args.push("-t".into());
        args.push(f.threads.to_string());
        args.push(format!("--parallel={}", ["auto", "yes", "no"][f.parallel as usize % 3]));
        if f.single_pass {
            args.push("--single-pass".into());
        }
        if f.inmemory {
            args.push("--inmemory".into());
        }
        if f.uncompressed {
            args.push(if f.ucsc { "-unc".into() } else { "--uncompressed".into() });
        }
        if let Some(b) = f.block_size {
            if f.ucsc {
                args.push(format!("-blockSize={}", b));
            } else {
                args.push("--block-size".into());
                args.push(b.to_string());
            }
        }
        if let Some(z) = &f.zooms {
            args.push(format!("--zooms={}", z.iter().map(|x| x.to_string()).collect::<Vec<_>>().join(",")));
        }
        obs.label(&format!("style={:?}", f.style));
        obs.label(&format!("parallel={}", ["auto", "yes", "no"][f.parallel as usize % 3]));
        obs.label_if(f.ucsc, "ucsc-spellings");
        obs.label_if(f.delay.is_some(), "delay-schedule");
        obs.label(if is_bw { "bedGraph<->bigWig" } else { "bed<->bigBed" });
        let (rc, err) = run(&prog, &args, f.delay)?;
        if rc != 0 {
            return Err(format!("{} {:?} failed with status {}: {}", tool, &args, rc, err.trim()));
        }
        if !std::path::Path::new(&p("out.bb")).exists() {
            return Err(format!("{} {:?} exited 0 without writing the output ({})", tool, &args, err.trim()));
        }
        // back
        let back = if is_bw { "bigwigtobedgraph" } else { "bigbedtobed" };
        let (prog, mut args) = invoke(back, f.back_style, dir.path())?;
        args.extend([p("out.bb"), p("back.txt")]);
        args.push("-t".into());
        args.push(f.back_threads.to_string());
        if f.back_inmemory {
            args.push("--inmemory".into());
        }
        let mut restricted: Option<(usize, u32, u32)> = None;
        if let Some((c, a, b)) = f.restrict {
            let ci = (c as usize * nchroms) >> 16;
            let (name, size) = match &case.base {
                Base::Bw(i) => (i.chroms[ci].name.clone(), i.chroms[ci].size),
                Base::Bb(i) => (i.chroms[ci].name.clone(), i.chroms[ci].size),
            };
            let x = ((a as u64 * (size as u64 + 1)) >> 16) as u32;
            let y = ((b as u64 * (size as u64 + 1)) >> 16) as u32;
            let (lo, hi) = (x.min(y), x.max(y));
            // --chrom alone, with both bounds, or with only one of them (the other defaults to 0 / the chromosome length)
            let (with_start, with_end) = if f.restrict_chrom_only {
                (false, false)
            } else {
                match f.restrict_which % 3 {
                    0 => (true, true),
                    1 => (true, false),
                    _ => (false, true),
                }
            };
            let s = if with_start { lo } else { 0 };
            let e = if with_end { hi } else { size };
            if f.ucsc {
                args.push(format!("-chrom={}", name));
                if with_start {
                    args.push(format!("-start={}", s));
                }
                if with_end {
                    args.push(format!("-end={}", e));
                }
            } else {
                args.push("--chrom".into());
                args.push(name);
                if with_start {
                    args.push("--start".into());
                    args.push(s.to_string());
                }
                if with_end {
                    args.push("--end".into());
                    args.push(e.to_string());
                }
            }
            obs.label(match (with_start, with_end) {
                (true, true) => "restrict=chrom+start+end",
                (true, false) => "restrict=chrom+start",
                (false, true) => "restrict=chrom+end",
                _ => "restrict=chrom",
            });
            restricted = Some((ci, s, e));
        }
        let (rc, err) = run(&prog, &args, f.delay)?;
        if rc != 0 {
            return Err(format!("{} {:?} failed with status {}: {}", back, &args, rc, err.trim()));
        }
        let out = std::fs::read_to_string(p("back.txt")).map_err(|e| format!("{} wrote no readable output: {}", back, e))?;
        obs.evals += 2;
        obs.nontrivial = (f.threads > 1 && f.parallel == 1 && nchroms >= 3) || (f.ucsc && restricted.is_some());
        obs.label_if(restricted.is_some(), "restricted-output");
        // parse + judge
        match &case.base {
            Base::Bw(i) => {
                let mut got: Vec<(String, BwVal)> = vec![];
                for l in out.lines() {
                    let c: Vec<&str> = l.split('\t').collect();
                    if c.len() != 4 {
                        return Err(format!("bedGraph output line with {} columns: {:?}", c.len(), l));
                    }
                    let v = BwVal {
                        s: c[1].parse().map_err(|_| format!("bad start in {:?}", l))?,
                        e: c[2].parse().map_err(|_| format!("bad end in {:?}", l))?,
                        v: c[3].parse().map_err(|_| format!("bad value in {:?}", l))?,
                    };
                    got.push((c[0].to_string(), v));
                }
                match restricted {
                    None => {
                        let want: Vec<(String, BwVal)> = i.chroms.iter().flat_map(|c| c.vals.iter().map(move |v| (c.name.clone(), v.clone()))).collect();
                        if got.len() != want.len() {
                            return Err(format!("round trip returned {} records, the input had {}", got.len(), want.len()));
                        }
                        for (k, (g, w)) in got.iter().zip(want.iter()).enumerate() {
                            if g.0 != w.0 || g.1.s != w.1.s || g.1.e != w.1.e || !(g.1.v == w.1.v || g.1.v.to_bits() == w.1.v.to_bits()) {
                                return Err(format!("round trip record #{}: got {:?}, the input had {:?}", k, g, w));
                            }
                        }
                    }
                    Some((ci, s, e)) => {
                        let ch = &i.chroms[ci];
                        if got.iter().any(|g| g.0 != ch.name) {
                            return Err(format!("restricted output for {:?} contains another chromosome", ch.name));
                        }
                        let vals: Vec<BwVal> = got.into_iter().map(|g| g.1).collect();
                        judge_interval(ch, s, e, &vals, "restricted bigwigtobedgraph")?;
                    }
                }
            }
            Base::Bb(i) => {
                let mut got: Vec<(String, BbEntry)> = vec![];
                for l in out.lines() {
                    let mut c = l.splitn(4, '\t');
                    let name = c.next().unwrap_or("").to_string();
                    let s: u32 = c.next().and_then(|x| x.parse().ok()).ok_or_else(|| format!("bad start in {:?}", l))?;
                    let e: u32 = c.next().and_then(|x| x.parse().ok()).ok_or_else(|| format!("bad end in {:?}", l))?;
                    let rest = c.next().unwrap_or("").to_string();
                    got.push((name, BbEntry { s, e, rest }));
                }
                match restricted {
                    None => {
                        let want: Vec<(String, BbEntry)> = i.chroms.iter().flat_map(|c| c.entries.iter().map(move |v| (c.name.clone(), v.clone()))).collect();
                        if got.len() != want.len() {
                            return Err(format!("round trip returned {} records, the input had {}", got.len(), want.len()));
                        }
                        for (k, (g, w)) in got.iter().zip(want.iter()).enumerate() {
                            if g != w {
                                return Err(format!("round trip record #{}: got {:?}, the input had {:?}", k, g, w));
                            }
                        }
                    }
                    Some((ci, s, e)) => {
                        let ch = &i.chroms[ci];
                        if got.iter().any(|g| g.0 != ch.name) {
                            return Err(format!("restricted output for {:?} contains another chromosome", ch.name));
                        }
                        let es: Vec<BbEntry> = got.into_iter().map(|g| g.1).collect();
                        if s < e {
                            judge_bb(ch, s, e, &es, "restricted bigbedtobed")?;
                        }
                    }
                }
            }
        }
        Ok(())
    }
}
