//! shared by C07 / C08: zoom levels through the reader, agreement with the independent decoder,
//! zoom range queries
use super::written::zrecs;
use crate::indep::decode::Decoded;
use crate::model::*;
use crate::runner::Obs;
use bigtools::{BBIFileRead, BigBedRead, BigWigRead, ZoomRecord};

pub trait ZoomReader {
    fn zoom(&mut self, chrom: &str, s: u32, e: u32, level: u32) -> Result<Vec<ZoomRecord>, String>;
    fn levels(&self) -> Vec<u32>;
}
impl<R: BBIFileRead> ZoomReader for BigWigRead<R> {
    fn zoom(&mut self, chrom: &str, s: u32, e: u32, level: u32) -> Result<Vec<ZoomRecord>, String> {
        let it = self
            .get_zoom_interval(chrom, s, e, level)
            .map_err(|er| format!("get_zoom_interval({:?},{},{},{}) failed: {}", chrom, s, e, level, er))?;
        it.collect::<Result<Vec<_>, _>>()
            .map_err(|er| format!("get_zoom_interval({:?},{},{},{}) item failed: {}", chrom, s, e, level, er))
    }
    fn levels(&self) -> Vec<u32> {
        self.info().zoom_headers.iter().map(|z| z.reduction_level).collect()
    }
}
impl<R: BBIFileRead> ZoomReader for BigBedRead<R> {
    fn zoom(&mut self, chrom: &str, s: u32, e: u32, level: u32) -> Result<Vec<ZoomRecord>, String> {
        let it = self
            .get_zoom_interval(chrom, s, e, level)
            .map_err(|er| format!("get_zoom_interval({:?},{},{},{}) failed: {}", chrom, s, e, level, er))?;
        it.collect::<Result<Vec<_>, _>>()
            .map_err(|er| format!("get_zoom_interval({:?},{},{},{}) item failed: {}", chrom, s, e, level, er))
    }
    fn levels(&self) -> Vec<u32> {
        self.info().zoom_headers.iter().map(|z| z.reduction_level).collect()
    }
}

fn to_zrec(id: u32, z: &ZoomRecord) -> ZRec {
    ZRec {
        chrom: id,
        start: z.start,
        end: z.end,
        valid: z.summary.bases_covered,
        min: z.summary.min_val,
        max: z.summary.max_val,
        sum: z.summary.sum,
        sumsq: z.summary.sum_squares,
    }
}

fn same_rec(a: &ZRec, b: &ZRec) -> bool {
    a.chrom == b.chrom
        && a.start == b.start
        && a.end == b.end
        && a.valid == b.valid
        && (a.min as f32).to_bits() == (b.min as f32).to_bits()
        && (a.max as f32).to_bits() == (b.max as f32).to_bits()
        && (a.sum as f32).to_bits() == (b.sum as f32).to_bits()
        && (a.sumsq as f32).to_bits() == (b.sumsq as f32).to_bits()
}

/// For every level: reader records == decoder records, oracle holds, range queries follow
/// rule 3. Returns per-level records (for non-triviality rules).
pub fn check_zoom_levels<Z: ZoomReader>(
    r: &mut Z,
    d: &Decoded,
    o: &Opts,
    signals: &[ChromSignal],
    names: &[(String, u32)],
    obs: &mut Obs,
) -> Result<Vec<(u32, Vec<ZRec>)>, String> {
    let levels = r.levels();
    let dlevels: Vec<u32> = d.zooms.iter().map(|z| z.reduction).collect();
    if levels != dlevels {
        return Err(format!(
            "reader lists zoom levels {:?}, independent decoder finds {:?}",
            levels, dlevels
        ));
    }
    super::written::check_zoom_directory(d, o)?;
    let mut out = vec![];
    for (li, level) in levels.iter().enumerate() {
        let drecs = zrecs(&d.zooms[li].blocks);
        zoom_level_check(*level, &drecs, signals).map_err(|e| format!("zoom level {}: {}", level, e))?;
        // through the reader, chromosome by chromosome, full span
        let mut rrecs: Vec<ZRec> = vec![];
        for (id, (name, _size)) in names.iter().enumerate() {
            let got = r.zoom(name, 0, u32::MAX, *level)?;
            rrecs.extend(got.iter().map(|z| to_zrec(id as u32, z)));
        }
        if rrecs.len() != drecs.len() || rrecs.iter().zip(drecs.iter()).any(|(a, b)| !same_rec(a, b)) {
            let i = rrecs
                .iter()
                .zip(drecs.iter())
                .position(|(a, b)| !same_rec(a, b))
                .unwrap_or(rrecs.len().min(drecs.len()));
            return Err(format!(
                "zoom level {}: reader returns {} records, decoder {}; first difference at {}: {:?} vs {:?}",
                level,
                rrecs.len(),
                drecs.len(),
                i,
                rrecs.get(i),
                drecs.get(i)
            ));
        }
        obs.evals += 1;
        // range queries: boundaries of a few records, +-1
        for (id, (name, size)) in names.iter().enumerate() {
            let crecs: Vec<&ZRec> = drecs.iter().filter(|z| z.chrom == id as u32).collect();
            if crecs.is_empty() {
                continue;
            }
            let mut points: Vec<u32> = vec![0, *size];
            let step = (crecs.len() / 6).max(1);
            for z in crecs.iter().step_by(step).chain(crecs.last().into_iter()) {
                for p in [z.start.saturating_sub(1), z.start, z.start.saturating_add(1), z.end.saturating_sub(1), z.end, z.end.saturating_add(1)] {
                    points.push(p);
                }
            }
            points.sort();
            points.dedup();
            let mut queries: Vec<(u32, u32)> = vec![];
            for w in points.windows(2) {
                queries.push((w[0], w[1]));
            }
            for i in 0..points.len() {
                let j = (i * 7 + 3) % points.len();
                if points[i] < points[j] {
                    queries.push((points[i], points[j]));
                }
            }
            queries.truncate(40);
            for (qs, qe) in queries {
                let got = r.zoom(name, qs, qe, *level)?;
                let got: Vec<(u32, u32)> = got.iter().map(|z| (z.start, z.end)).collect();
                // must: positive-length intersection; may: inclusive touch
                let mut gi = 0usize;
                for z in &crecs {
                    let strict = z.start < qe && z.end > qs;
                    let incl = z.start <= qe && z.end >= qs;
                    let present = gi < got.len() && got[gi] == (z.start, z.end);
                    if present {
                        if !incl {
                            return Err(format!(
                                "zoom level {} query {:?}[{},{}): returned record [{},{}) lies wholly outside",
                                level, name, qs, qe, z.start, z.end
                            ));
                        }
                        gi += 1;
                    } else if strict {
                        return Err(format!(
                            "zoom level {} query {:?}[{},{}): record [{},{}) intersects the range but was not returned (got {:?})",
                            level, name, qs, qe, z.start, z.end, got
                        ));
                    }
                }
                if gi != got.len() {
                    return Err(format!(
                        "zoom level {} query {:?}[{},{}): result {:?} is not a subsequence of the stored records",
                        level, name, qs, qe, got
                    ));
                }
                obs.evals += 1;
            }
        }
        out.push((*level, drecs));
    }
    Ok(out)
}
