//! Thin drivers around the public bigtools API: every call shape the properties quantify over.
use crate::model::*;
use bigtools::beddata::{BedParserParallelStreamingIterator, BedParserStreamingIterator};
use bigtools::bed::bedparser::{parse_bed, parse_bedgraph, BedValueError};
use bigtools::{BBIWriteOptions, BedEntry, BigBedWrite, BigWigWrite, InputSortType, Value};
use std::collections::HashMap;
use std::io::{Cursor, Seek, Write};
use tokio::runtime::Runtime;

pub fn runtime(threads: u8) -> Runtime {
    if threads == 0 {
        tokio::runtime::Builder::new_current_thread().build().expect("runtime")
    } else {
        tokio::runtime::Builder::new_multi_thread()
            .worker_threads(threads as usize)
            .build()
            .expect("runtime")
    }
}

pub fn bbi_options(o: &Opts) -> BBIWriteOptions {
    let mut w = BBIWriteOptions::default();
    w.compress = o.compress;
    w.items_per_slot = o.items_per_slot;
    w.block_size = o.block_size;
    match &o.zoom {
        ZoomSpec::Auto { initial, max } => {
            w.initial_zoom_size = *initial;
            w.max_zooms = *max;
            w.manual_zoom_sizes = None;
        }
        ZoomSpec::Manual(v) => {
            w.manual_zoom_sizes = Some(v.clone());
            // a manual list overrides max_zooms; the two options are still set independently
            if let Some(m) = o.max_zooms_with_manual {
                w.max_zooms = m;
            }
        }
    }
    w.channel_size = o.channel_size;
    w.inmemory = o.inmemory;
    w.input_sort_type = if o.sorted_chroms {
        InputSortType::ALL
    } else {
        InputSortType::START
    };
    w
}

pub fn bw_sizes(input: &BwInput) -> HashMap<String, u32> {
    let mut m = HashMap::new();
    for c in &input.chroms {
        m.insert(c.name.clone(), c.size);
    }
    for (n, s) in &input.unused {
        m.insert(n.clone(), *s);
    }
    m
}
pub fn bb_sizes(input: &BbInput) -> HashMap<String, u32> {
    let mut m = HashMap::new();
    for c in &input.chroms {
        m.insert(c.name.clone(), c.size);
    }
    for (n, s) in &input.unused {
        m.insert(n.clone(), *s);
    }
    m
}

pub fn bw_items(input: &BwInput) -> Vec<(String, Value)> {
    let mut v = Vec::with_capacity(input.n_items());
    for c in &input.chroms {
        for x in &c.vals {
            v.push((
                c.name.clone(),
                Value {
                    start: x.s,
                    end: x.e,
                    value: x.v,
                },
            ));
        }
    }
    v
}
pub fn bb_items(input: &BbInput) -> Vec<(String, BedEntry)> {
    let mut v = Vec::with_capacity(input.n_items());
    for c in &input.chroms {
        for x in &c.entries {
            v.push((
                c.name.clone(),
                BedEntry {
                    start: x.s,
                    end: x.e,
                    rest: x.rest.clone(),
                },
            ));
        }
    }
    v
}

/// bedGraph text + my own linear chromosome index (offset of the first line of each run)
pub fn bw_text(items: &[(String, Value)]) -> (String, Vec<(u64, String)>) {
    let mut s = String::new();
    let mut idx: Vec<(u64, String)> = vec![];
    for (c, v) in items {
        if idx.last().map(|l| &l.1 != c).unwrap_or(true) {
            idx.push((s.len() as u64, c.clone()));
        }
        use std::fmt::Write;
        let _ = writeln!(s, "{}\t{}\t{}\t{}", c, v.start, v.end, v.value);
    }
    (s, idx)
}
pub fn bb_text(items: &[(String, BedEntry)]) -> (String, Vec<(u64, String)>) {
    let mut s = String::new();
    let mut idx: Vec<(u64, String)> = vec![];
    for (c, v) in items {
        if idx.last().map(|l| &l.1 != c).unwrap_or(true) {
            idx.push((s.len() as u64, c.clone()));
        }
        use std::fmt::Write;
        if v.rest.is_empty() {
            let _ = writeln!(s, "{}\t{}\t{}", c, v.start, v.end);
        } else {
            let _ = writeln!(s, "{}\t{}\t{}\t{}", c, v.start, v.end, v.rest);
        }
    }
    (s, idx)
}

fn work_dir() -> String {
    std::env::var("VERIF_TMP").unwrap_or_else(|_| std::env::temp_dir().to_string_lossy().to_string())
}

/// a text whose last line is not terminated (only for rendered text, never for an injected override)
fn strip_final_newline(mut t: (String, Vec<(u64, String)>), strip: bool) -> (String, Vec<(u64, String)>) {
    if strip && t.0.ends_with('\n') {
        t.0.pop();
    }
    t
}

pub fn temp_text_file(text: &str) -> tempfile::NamedTempFile {
    let mut f = tempfile::Builder::new()
        .prefix("vh_")
        .tempfile_in(work_dir())
        .expect("temp file");
    f.write_all(text.as_bytes()).expect("write temp");
    f.flush().expect("flush temp");
    f
}

fn es<E: std::fmt::Display>(e: E) -> String {
    format!("{}", e)
}

/// Write a bigWig from raw (possibly invalid) items. `text` overrides the rendered text for the
/// text sources (used to inject malformed lines); `index` is the chromosome index handed to the
/// parallel source.
pub fn write_bw_raw<W: Write + Seek + Send + 'static>(
    items: Vec<(String, Value)>,
    sizes: HashMap<String, u32>,
    o: &Opts,
    sink: W,
    text_override: Option<(String, Vec<(u64, String)>)>,
) -> Result<(), String> {
    let mut w = BigWigWrite::new(sink, sizes);
    w.options = bbi_options(o);
    let rt = runtime(o.threads);
    let allow = !o.sorted_chroms;
    match o.source {
        SourceKind::Infallible => {
            if o.multipass {
                w.write_multipass(
                    || {
                        Ok(BedParserStreamingIterator::wrap_infallible_iter(
                            items.clone().into_iter(),
                            allow,
                        ))
                    },
                    rt,
                )
                .map_err(es)
            } else {
                w.write(
                    BedParserStreamingIterator::wrap_infallible_iter(items.into_iter(), allow),
                    rt,
                )
                .map_err(es)
            }
        }
        SourceKind::Fallible => {
            let mk = |items: Vec<(String, Value)>| {
                items
                    .into_iter()
                    .map(|x| -> Result<(String, Value), BedValueError> { Ok(x) })
            };
            if o.multipass {
                w.write_multipass(
                    || Ok(BedParserStreamingIterator::wrap_iter(mk(items.clone()), allow)),
                    rt,
                )
                .map_err(es)
            } else {
                w.write(BedParserStreamingIterator::wrap_iter(mk(items), allow), rt)
                    .map_err(es)
            }
        }
        SourceKind::SerialText => {
            let (text, _) = text_override.unwrap_or_else(|| strip_final_newline(bw_text(&items), o.no_final_newline));
            if o.multipass {
                w.write_multipass(
                    || {
                        Ok(BedParserStreamingIterator::from_bedgraph_file(
                            Cursor::new(text.clone().into_bytes()),
                            allow,
                        ))
                    },
                    rt,
                )
                .map_err(es)
            } else {
                w.write(
                    BedParserStreamingIterator::from_bedgraph_file(Cursor::new(text.into_bytes()), allow),
                    rt,
                )
                .map_err(es)
            }
        }
        SourceKind::ParallelText => {
            let (text, index) = text_override.unwrap_or_else(|| strip_final_newline(bw_text(&items), o.no_final_newline));
            let f = temp_text_file(&text);
            let path = f.path().to_path_buf();
            let r = if o.multipass {
                w.write_multipass(
                    || {
                        Ok(BedParserParallelStreamingIterator::new(
                            index.clone(),
                            allow,
                            path.clone(),
                            parse_bedgraph,
                        ))
                    },
                    rt,
                )
                .map_err(es)
            } else {
                w.write(
                    BedParserParallelStreamingIterator::new(index, allow, path.clone(), parse_bedgraph),
                    rt,
                )
                .map_err(es)
            };
            drop(f);
            r
        }
    }
}

pub fn write_bw<W: Write + Seek + Send + 'static>(input: &BwInput, o: &Opts, sink: W) -> Result<(), String> {
    write_bw_raw(bw_items(input), bw_sizes(input), o, sink, None)
}

pub fn write_bb_raw<W: Write + Seek + Send + 'static>(
    items: Vec<(String, BedEntry)>,
    sizes: HashMap<String, u32>,
    autosql: Option<String>,
    o: &Opts,
    sink: W,
    text_override: Option<(String, Vec<(u64, String)>)>,
) -> Result<(), String> {
    let mut w = BigBedWrite::new(sink, sizes);
    w.options = bbi_options(o);
    w.autosql = autosql;
    let rt = runtime(o.threads);
    let allow = !o.sorted_chroms;
    match o.source {
        SourceKind::Infallible => {
            if o.multipass {
                w.write_multipass(
                    || {
                        Ok(BedParserStreamingIterator::wrap_infallible_iter(
                            items.clone().into_iter(),
                            allow,
                        ))
                    },
                    rt,
                )
                .map_err(es)
            } else {
                w.write(
                    BedParserStreamingIterator::wrap_infallible_iter(items.into_iter(), allow),
                    rt,
                )
                .map_err(es)
            }
        }
        SourceKind::Fallible => {
            let mk = |items: Vec<(String, BedEntry)>| {
                items
                    .into_iter()
                    .map(|x| -> Result<(String, BedEntry), BedValueError> { Ok(x) })
            };
            if o.multipass {
                w.write_multipass(
                    || Ok(BedParserStreamingIterator::wrap_iter(mk(items.clone()), allow)),
                    rt,
                )
                .map_err(es)
            } else {
                w.write(BedParserStreamingIterator::wrap_iter(mk(items), allow), rt)
                    .map_err(es)
            }
        }
        SourceKind::SerialText => {
            let (text, _) = text_override.unwrap_or_else(|| strip_final_newline(bb_text(&items), o.no_final_newline));
            if o.multipass {
                w.write_multipass(
                    || {
                        Ok(BedParserStreamingIterator::from_bed_file(
                            Cursor::new(text.clone().into_bytes()),
                            allow,
                        ))
                    },
                    rt,
                )
                .map_err(es)
            } else {
                w.write(
                    BedParserStreamingIterator::from_bed_file(Cursor::new(text.into_bytes()), allow),
                    rt,
                )
                .map_err(es)
            }
        }
        SourceKind::ParallelText => {
            let (text, index) = text_override.unwrap_or_else(|| strip_final_newline(bb_text(&items), o.no_final_newline));
            let f = temp_text_file(&text);
            let path = f.path().to_path_buf();
            let r = if o.multipass {
                w.write_multipass(
                    || {
                        Ok(BedParserParallelStreamingIterator::new(
                            index.clone(),
                            allow,
                            path.clone(),
                            parse_bed,
                        ))
                    },
                    rt,
                )
                .map_err(es)
            } else {
                w.write(
                    BedParserParallelStreamingIterator::new(index, allow, path.clone(), parse_bed),
                    rt,
                )
                .map_err(es)
            };
            drop(f);
            r
        }
    }
}

pub fn write_bb<W: Write + Seek + Send + 'static>(input: &BbInput, o: &Opts, sink: W) -> Result<(), String> {
    write_bb_raw(bb_items(input), bb_sizes(input), input.autosql.clone(), o, sink, None)
}
