//! Sharded property runner: parent process + worker processes.
//!
//! * every random choice comes from a proptest strategy driven by a ChaCha RNG seeded from
//!   (VERIF_SEED, shard) — a run is a function of (tree, seed, tier);
//! * the worker prints `S <idx>` before and `E <idx> ...` after every case, a watchdog thread
//!   turns an over-deadline case into `HANG <idx>` + exit 3, so the parent always knows the
//!   in-flight case and can regenerate it (`dump`) — hangs and aborts become replayable cases;
//! * ordinary oracle failures are shrunk in-process (catch_unwind), hangs/aborts are shrunk with
//!   one child process per candidate.
use proptest::strategy::{BoxedStrategy, Strategy, ValueTree};
use proptest::test_runner::{Config, RngAlgorithm, TestRng, TestRunner};
use serde::de::DeserializeOwned;
use serde::Serialize;
use std::collections::{BTreeMap, BTreeSet, HashSet};
use std::fmt::Debug;
use std::io::{BufRead, BufReader, Write};
use std::panic::{catch_unwind, AssertUnwindSafe};
use std::process::{Command, Stdio};
use std::sync::atomic::{AtomicU64, Ordering};
use std::sync::{Arc, Mutex};
use std::time::{Duration, Instant};

#[derive(Copy, Clone, Debug, PartialEq, Eq)]
pub enum Tier {
    Quick,
    Thorough,
}
impl Tier {
    pub fn name(self) -> &'static str {
        match self {
            Tier::Quick => "quick",
            Tier::Thorough => "thorough",
        }
    }
    pub fn parse(s: &str) -> Tier {
        match s {
            "thorough" => Tier::Thorough,
            _ => Tier::Quick,
        }
    }
    pub fn pick<T>(self, q: T, t: T) -> T {
        match self {
            Tier::Quick => q,
            Tier::Thorough => t,
        }
    }
}

#[derive(Default, Debug)]
pub struct Obs {
    pub labels: BTreeSet<String>,
    pub nontrivial: bool,
    /// evaluations beyond the case itself (queries, prefixes, enumerated sub-cases)
    pub evals: u64,
    /// distinct non-trivial sub-cases counted inside a batch case (distinct by construction)
    pub nt_extra: u64,
    pub notes: Vec<String>,
    /// a smaller self-contained case that reproduces the failure (batch cases)
    pub reduced: Option<serde_json::Value>,
    /// sample sub-cases for the evidence file
    pub samples: Vec<serde_json::Value>,
}
impl Obs {
    pub fn label(&mut self, l: &str) {
        if !self.labels.contains(l) {
            self.labels.insert(l.to_string());
        }
    }
    pub fn label_if(&mut self, c: bool, l: &str) {
        if c {
            self.label(l)
        }
    }
}

pub trait Prop {
    type Case: Serialize + DeserializeOwned + Clone + Debug + 'static;
    const ID: &'static str;
    const LEVEL: &'static str = "exploration";
    /// the statement is about termination: a confirmed deadline hit is a violation
    const TERMINATION: bool = false;
    fn rule() -> String;
    fn assumptions() -> Vec<String> {
        vec![]
    }
    fn technique() -> String;
    /// number of generated cases for the tier (total over all shards)
    fn cases(tier: Tier) -> u64;
    fn strategy(tier: Tier) -> BoxedStrategy<Self::Case>;
    /// deterministic cases (regressions, enumerated grids as batch cases); distributed round robin
    fn fixed_cases(_tier: Tier) -> Vec<Self::Case> {
        vec![]
    }
    /// true when fixed_cases enumerate a finite space completely
    fn exhaustive(_tier: Tier) -> bool {
        false
    }
    fn check(case: &Self::Case, obs: &mut Obs) -> Result<(), String>;
    /// (finding id, what, probe case): the probe must still FAIL for the finding to be printed
    fn probes() -> Vec<(String, String, Self::Case)> {
        vec![]
    }
    fn case_deadline_s() -> u64 {
        30
    }
    fn max_workers() -> usize {
        16
    }
    /// resident-set limit (MiB) watched by the worker's watchdog: exceeding it during a case is
    /// treated like a deadline hit ("grows without bound"); 0 = not watched
    fn rss_limit_mb() -> u64 {
        0
    }
}

// ---------------------------------------------------------------------------------------------

static LAST_PANIC: Mutex<String> = Mutex::new(String::new());

pub fn install_quiet_panic_hook() {
    std::panic::set_hook(Box::new(|info| {
        let loc = info
            .location()
            .map(|l| format!("{}:{}", l.file(), l.line()))
            .unwrap_or_default();
        let msg = if let Some(s) = info.payload().downcast_ref::<&str>() {
            s.to_string()
        } else if let Some(s) = info.payload().downcast_ref::<String>() {
            s.clone()
        } else {
            "panic".to_string()
        };
        if let Ok(mut g) = LAST_PANIC.lock() {
            // keep the first panic of a case: later ones are usually consequences
            if g.is_empty() {
                *g = format!("panic at {}: {}", loc, msg);
            }
        }
    }));
}

pub fn take_last_panic() -> String {
    let mut g = LAST_PANIC.lock().unwrap_or_else(|e| e.into_inner());
    std::mem::take(&mut *g)
}

/// run the oracle, converting panics into failures
pub fn eval<P: Prop>(case: &P::Case, obs: &mut Obs) -> Result<(), String> {
    let _ = take_last_panic();
    let r = catch_unwind(AssertUnwindSafe(|| P::check(case, obs)));
    match r {
        Ok(r) => {
            let _ = take_last_panic();
            r
        }
        Err(_) => {
            let p = take_last_panic();
            Err(format!("harness or code under test panicked: {}", p))
        }
    }
}

fn mix(seed: u64, shard: u64) -> [u8; 32] {
    // splitmix64 expansion of (seed, shard) into a ChaCha key
    let mut x = seed ^ shard.wrapping_mul(0x9E37_79B9_7F4A_7C15) ^ 0xD1B5_4A32_D192_ED03;
    let mut out = [0u8; 32];
    for i in 0..4 {
        x = x.wrapping_add(0x9E37_79B9_7F4A_7C15);
        let mut z = x;
        z = (z ^ (z >> 30)).wrapping_mul(0xBF58_476D_1CE4_E5B9);
        z = (z ^ (z >> 27)).wrapping_mul(0x94D0_49BB_1331_11EB);
        z ^= z >> 31;
        out[i * 8..i * 8 + 8].copy_from_slice(&z.to_le_bytes());
    }
    out
}

fn new_runner(seed: u64, shard: u64) -> TestRunner {
    let mut cfg = Config::default();
    cfg.failure_persistence = None;
    TestRunner::new_with_rng(cfg, TestRng::from_seed(RngAlgorithm::ChaCha, &mix(seed, shard)))
}

pub fn fnv(bytes: &[u8]) -> u64 {
    let mut h: u64 = 0xcbf29ce484222325;
    for b in bytes {
        h ^= *b as u64;
        h = h.wrapping_mul(0x100000001b3);
    }
    h
}

static CUR_SUB: Mutex<String> = Mutex::new(String::new());
/// batch cases publish the sub-case they are about to run (as the JSON of a stand-alone case):
/// if the watchdog fires, that JSON becomes the replay file instead of the whole batch
pub fn set_current_subcase(json: String) {
    if let Ok(mut g) = CUR_SUB.lock() {
        *g = json;
    }
}
static CUR_CASE: AtomicU64 = AtomicU64::new(0);
static CUR_START_MS: AtomicU64 = AtomicU64::new(u64::MAX);

static RSS_LIMIT_MB: AtomicU64 = AtomicU64::new(0);

fn rss_mb() -> u64 {
    std::fs::read_to_string("/proc/self/statm")
        .ok()
        .and_then(|s| s.split_whitespace().nth(1).and_then(|p| p.parse::<u64>().ok()))
        .map(|pages| pages * 4096 / (1 << 20))
        .unwrap_or(0)
}

fn start_watchdog(
    deadline_s: u64,
    idx_names: Arc<Mutex<String>>,
    on_hang: Box<dyn Fn(&str) -> i32 + Send>,
) {
    let t0 = Instant::now();
    CUR_START_MS.store(u64::MAX, Ordering::SeqCst);
    std::thread::spawn(move || loop {
        std::thread::sleep(Duration::from_millis(100));
        let st = CUR_START_MS.load(Ordering::SeqCst);
        if st == u64::MAX {
            continue;
        }
        let now = t0.elapsed().as_millis() as u64;
        let lim = RSS_LIMIT_MB.load(Ordering::Relaxed);
        let blown = lim > 0 && rss_mb() > lim;
        // CUR_START_MS is relative to its own clock: we store elapsed of a shared Instant
        if blown || now.saturating_sub(st) > deadline_s * 1000 {
            let name = idx_names.lock().map(|g| g.clone()).unwrap_or_default();
            let code = on_hang(&name);
            let _ = std::io::stdout().flush();
            std::process::exit(code);
        }
    });
    WATCH_T0.get_or_init(|| t0);
}
static WATCH_T0: std::sync::OnceLock<Instant> = std::sync::OnceLock::new();
fn mark_start() {
    if let Some(t0) = WATCH_T0.get() {
        CUR_START_MS.store(t0.elapsed().as_millis() as u64, Ordering::SeqCst);
    }
    CUR_CASE.fetch_add(1, Ordering::SeqCst);
}
/// batch cases call this before every sub-evaluation: the deadline applies to one call into the
/// code under test, not to the whole batch
pub fn mark_progress() {
    if CUR_START_MS.load(Ordering::SeqCst) != u64::MAX {
        if let Some(t0) = WATCH_T0.get() {
            CUR_START_MS.store(t0.elapsed().as_millis() as u64, Ordering::SeqCst);
        }
    }
}
fn mark_end() {
    CUR_START_MS.store(u64::MAX, Ordering::SeqCst);
}

fn set_rlimit_as(bytes: u64) {
    unsafe {
        let lim = libc::rlimit {
            rlim_cur: bytes,
            rlim_max: bytes,
        };
        libc::setrlimit(libc::RLIMIT_AS, &lim);
    }
}

fn shrink_in_process<P: Prop>(
    mut tree: Box<dyn ValueTree<Value = P::Case>>,
    first_msg: String,
    test: &mut dyn FnMut(&P::Case) -> Option<String>,
    max_iters: usize,
    max_time: Duration,
) -> (P::Case, String) {
    let t0 = Instant::now();
    let mut best = tree.current();
    let mut best_msg = first_msg;
    let mut iters = 0;
    if !tree.simplify() {
        return (best, best_msg);
    }
    loop {
        iters += 1;
        if iters > max_iters || t0.elapsed() > max_time {
            break;
        }
        let cur = tree.current();
        match test(&cur) {
            Some(msg) => {
                best = cur;
                best_msg = msg;
                if !tree.simplify() {
                    break;
                }
            }
            None => {
                if !tree.complicate() {
                    break;
                }
            }
        }
    }
    (best, best_msg)
}

pub struct WorkerArgs {
    pub tier: Tier,
    pub seed: u64,
    pub shard: u64,
    pub nshards: u64,
    /// resume a shard after the named case ("F3" / "G120"): earlier cases are regenerated (to keep
    /// the random sequence) but not evaluated
    pub resume_after: Option<String>,
}

fn shard_cases<P: Prop>(tier: Tier, shard: u64, nshards: u64) -> u64 {
    let total = P::cases(tier);
    let base = total / nshards;
    let extra = if shard < total % nshards { 1 } else { 0 };
    base + extra
}

fn emit_sample(json: &str, budget: &mut usize) {
    if *budget > 0 && json.len() < 6000 {
        *budget -= 1;
        println!("SAMPLE {}", json);
    }
}

pub fn worker<P: Prop>(a: &WorkerArgs) -> i32 {
    install_quiet_panic_hook();
    set_rlimit_as(12 << 30);
    let name = Arc::new(Mutex::new(String::new()));
    RSS_LIMIT_MB.store(P::rss_limit_mb(), Ordering::Relaxed);
    start_watchdog(
        // VERIF_CASE_DEADLINE_S: only for exercising the resume path of the runner itself
        std::env::var("VERIF_CASE_DEADLINE_S").ok().and_then(|s| s.parse().ok()).unwrap_or(P::case_deadline_s()),
        name.clone(),
        Box::new(|n| {
            let sub = CUR_SUB.lock().map(|g| g.clone()).unwrap_or_default();
            if !sub.is_empty() {
                println!("HANGSUB {}", sub.replace('\n', " "));
            }
            println!("HANG {}", n);
            3
        }),
    );
    let out = std::io::stdout();
    let mut sample_budget = 3usize;

    let mut run_one = |idx: String, case: &P::Case| -> Result<(), String> {
        *name.lock().unwrap() = idx.clone();
        {
            let mut o = out.lock();
            let _ = writeln!(o, "S {}", idx);
            let _ = o.flush();
        }
        let mut obs = Obs::default();
        mark_start();
        let r = eval::<P>(case, &mut obs);
        mark_end();
        let (hash, json) = if obs.nontrivial || r.is_err() {
            let j = serde_json::to_string(case).unwrap_or_default();
            (fnv(j.as_bytes()), Some(j))
        } else {
            (0, None)
        };
        let labels: Vec<String> = obs.labels.iter().cloned().collect();
        {
            let mut o = out.lock();
            let _ = writeln!(
                o,
                "E {} {} {} {} {} {}",
                idx,
                if obs.nontrivial { 1 } else { 0 },
                hash,
                obs.evals,
                obs.nt_extra,
                labels.join(",")
            );
            for n in &obs.notes {
                let _ = writeln!(o, "NOTE {}", n.replace('\n', " "));
            }
            for s in obs.samples.iter().take(2) {
                let _ = writeln!(o, "SUBSAMPLE {}", s);
            }
        }
        if obs.nontrivial && r.is_ok() {
            if let Some(j) = &json {
                emit_sample(j, &mut sample_budget);
            }
        }
        match r {
            Ok(()) => Ok(()),
            Err(msg) => {
                if let Some(red) = obs.reduced.take() {
                    // a batch case handed us a smaller reproduction
                    println!(
                        "FAIL {} {}",
                        idx,
                        serde_json::json!({"case": red, "msg": msg})
                    );
                    let _ = std::io::stdout().flush();
                    return Err("reported".into());
                }
                Err(msg)
            }
        }
    };

    // resuming: which cases were already dealt with by an earlier worker of this shard
    let idx_num = |s: &str| s.trim_end_matches("~shrink")[1..].parse::<u64>().ok();
    let (skip_fixed_upto, skip_gen_upto): (Option<u64>, Option<u64>) = match a.resume_after.as_deref() {
        None => (None, None),
        Some(r) if r.starts_with('F') => (idx_num(r), None),
        Some(r) => (Some(u64::MAX), idx_num(r)),
    };
    // fixed cases
    let fixed = P::fixed_cases(a.tier);
    for (k, case) in fixed.iter().enumerate() {
        if (k as u64) % a.nshards != a.shard {
            continue;
        }
        if skip_fixed_upto.map(|u| k as u64 <= u).unwrap_or(false) {
            continue;
        }
        let idx = format!("F{}", k);
        if let Err(msg) = run_one(idx.clone(), case) {
            if msg != "reported" {
                println!(
                    "FAIL {} {}",
                    idx,
                    serde_json::json!({"case": case, "msg": msg})
                );
            }
            let _ = std::io::stdout().flush();
            return 1;
        }
    }

    // generated cases
    let n = shard_cases::<P>(a.tier, a.shard, a.nshards);
    let strat = P::strategy(a.tier);
    let mut runner = new_runner(a.seed, a.shard);
    for i in 0..n {
        let gen = catch_unwind(AssertUnwindSafe(|| strat.new_tree(&mut runner).map(|t| {
            let c = t.current();
            (t, c)
        })));
        let (tree, case) = match gen {
            Ok(Ok(t)) => t,
            Ok(Err(e)) => {
                println!("NOTE generator rejected: {}", e);
                continue;
            }
            Err(_) => {
                println!("NOTE GENERATOR PANICKED (harness bug): {}", take_last_panic());
                let _ = std::io::stdout().flush();
                return 2;
            }
        };
        if skip_gen_upto.map(|u| i <= u).unwrap_or(false) {
            continue;
        }
        let idx = format!("G{}", i);
        if let Err(msg) = run_one(idx.clone(), &case) {
            if msg == "reported" {
                return 1;
            }
            // shrink in process
            *name.lock().unwrap() = format!("{}~shrink", idx);
            let mut test = |c: &P::Case| -> Option<String> {
                let mut o = Obs::default();
                mark_start();
                let r = eval::<P>(c, &mut o);
                mark_end();
                r.err()
            };
            let (best, best_msg) = shrink_in_process::<P>(
                Box::new(tree),
                msg,
                &mut test,
                400,
                Duration::from_secs(60),
            );
            // a batch case may still hand a reduced case
            let mut o = Obs::default();
            let _ = eval::<P>(&best, &mut o);
            let case_json = match o.reduced.take() {
                Some(r) => r,
                None => serde_json::to_value(&best).unwrap(),
            };
            println!(
                "FAIL {} {}",
                idx,
                serde_json::json!({"case": case_json, "msg": best_msg})
            );
            let _ = std::io::stdout().flush();
            return 1;
        }
    }
    println!("DONE");
    let _ = std::io::stdout().flush();
    0
}

/// regenerate one case of a shard and print it as JSON
pub fn dump<P: Prop>(a: &WorkerArgs, idx: &str) -> Option<P::Case> {
    let idx = idx.trim_end_matches("~shrink");
    if let Some(k) = idx.strip_prefix('F') {
        let k: usize = k.parse().ok()?;
        return P::fixed_cases(a.tier).into_iter().nth(k);
    }
    let k: u64 = idx.strip_prefix('G')?.parse().ok()?;
    let strat = P::strategy(a.tier);
    let mut runner = new_runner(a.seed, a.shard);
    let mut last = None;
    for _ in 0..=k {
        last = strat.new_tree(&mut runner).ok().map(|t| t.current());
    }
    last
}

/// shrink a generated case using one child process per candidate (for hangs / aborts)
pub fn shrink_external<P: Prop>(a: &WorkerArgs, idx: &str, workdir: &str) -> Option<P::Case> {
    let idx = idx.trim_end_matches("~shrink");
    let k: u64 = idx.strip_prefix('G')?.parse().ok()?;
    let strat = P::strategy(a.tier);
    let mut runner = new_runner(a.seed, a.shard);
    let mut tree = None;
    for _ in 0..=k {
        tree = strat.new_tree(&mut runner).ok();
    }
    let tree = tree?;
    let exe = std::env::current_exe().ok()?;
    let mut n = 0;
    let mut test = |c: &P::Case| -> Option<String> {
        n += 1;
        let path = format!("{}/shrink_{}.json", workdir, n);
        let _ = std::fs::write(
            &path,
            serde_json::json!({"property": P::ID, "case": c, "msg": "shrink candidate"}).to_string(),
        );
        let st = run_with_timeout(
            Command::new(&exe).args(["replay", P::ID, &path, "--quiet", "--deadline", "5"]),
            Duration::from_secs(8),
        );
        let _ = std::fs::remove_file(&path);
        match st {
            RunOutcome::Exit(0) => None,
            RunOutcome::Exit(2) => None,
            _ => Some("fails".into()),
        }
    };
    let (best, _) = shrink_in_process::<P>(
        Box::new(tree),
        "hang/abort".into(),
        &mut test,
        30,
        Duration::from_secs(120),
    );
    Some(best)
}

pub enum RunOutcome {
    Exit(i32),
    Signal,
    Timeout,
}

pub fn run_with_timeout(cmd: &mut Command, t: Duration) -> RunOutcome {
    let mut child = match cmd.stdout(Stdio::null()).stderr(Stdio::null()).spawn() {
        Ok(c) => c,
        Err(_) => return RunOutcome::Exit(2),
    };
    let t0 = Instant::now();
    loop {
        match child.try_wait() {
            Ok(Some(st)) => {
                return match st.code() {
                    Some(c) => RunOutcome::Exit(c),
                    None => RunOutcome::Signal,
                }
            }
            Ok(None) => {
                if t0.elapsed() > t {
                    let _ = child.kill();
                    let _ = child.wait();
                    return RunOutcome::Timeout;
                }
                std::thread::sleep(Duration::from_millis(5));
            }
            Err(_) => return RunOutcome::Exit(2),
        }
    }
}

/// replay one case file; returns process exit code
pub fn replay<P: Prop>(path: &str, quiet: bool, deadline_s: u64) -> i32 {
    install_quiet_panic_hook();
    set_rlimit_as(12 << 30);
    let txt = match std::fs::read_to_string(path) {
        Ok(t) => t,
        Err(e) => {
            eprintln!("cannot read {}: {}", path, e);
            return 2;
        }
    };
    let v: serde_json::Value = match serde_json::from_str(&txt) {
        Ok(v) => v,
        Err(e) => {
            eprintln!("bad replay file: {}", e);
            return 2;
        }
    };
    let case: P::Case = match serde_json::from_value(v.get("case").cloned().unwrap_or(v.clone())) {
        Ok(c) => c,
        Err(e) => {
            eprintln!("replay file does not hold a {} case: {}", P::ID, e);
            return 2;
        }
    };
    let name = Arc::new(Mutex::new("replay".to_string()));
    RSS_LIMIT_MB.store(P::rss_limit_mb(), Ordering::Relaxed);
    // quiet (machine) mode: a hang is exit 4 and the caller decides what it means; otherwise
    // it is a violation for termination properties and inconclusive (2) for the others
    let path2 = path.to_string();
    start_watchdog(
        deadline_s,
        name,
        Box::new(move |_| {
            if quiet {
                4
            } else if P::TERMINATION {
                println!("replay {}: did not terminate within {} s", path2, deadline_s);
                println!("VIOLATION property={} replay={}", P::ID, path2);
                1
            } else {
                println!("replay {}: exceeded {} s (inconclusive for {})", path2, deadline_s, P::ID);
                2
            }
        }),
    );
    let mut obs = Obs::default();
    mark_start();
    let r = eval::<P>(&case, &mut obs);
    mark_end();
    match r {
        Ok(()) => {
            if !quiet {
                println!("replay {}: property held on this case", path);
            }
            0
        }
        Err(msg) => {
            if !quiet {
                println!("replay {}: {}", path, msg);
                println!("VIOLATION property={} replay={}", P::ID, path);
            }
            1
        }
    }
}

// ---------------------------------------------------------------------------------------------
// parent

#[derive(Default)]
struct Agg {
    evaluations: u64,
    nt_hashes: HashSet<u64>,
    nt_extra: u64,
    labels: BTreeMap<String, u64>,
    samples: Vec<serde_json::Value>,
    subsamples: Vec<serde_json::Value>,
    notes: Vec<String>,
    fails: Vec<(u64, String, serde_json::Value)>, // shard, idx, {case,msg}
    hangs: Vec<(u64, String)>,
    hang_subs: BTreeMap<u64, serde_json::Value>,
    crashes: Vec<(u64, String)>,
    done: u64,
    generated_run: u64,
}

impl Agg {
    /// the published sub-cases belong to the hangs of the round just finished
    fn hang_subs_round_done(&mut self) {}
}

pub struct ParentArgs {
    pub tier: Tier,
    pub seed: u64,
    pub verif_dir: String,
}

pub fn write_replay(verif_dir: &str, id: &str, case: &serde_json::Value, msg: &str, seed: u64) -> String {
    let dir = format!("{}/replays/{}", verif_dir, id);
    let _ = std::fs::create_dir_all(&dir);
    let body = serde_json::json!({"property": id, "seed": seed, "msg": msg, "case": case});
    let s = serde_json::to_string_pretty(&body).unwrap();
    let h = fnv(serde_json::to_string(case).unwrap().as_bytes());
    let path = format!("{}/found_{:016x}.json", dir, h);
    let _ = std::fs::write(&path, s);
    path
}

pub fn parent<P: Prop>(a: &ParentArgs) -> i32 {
    let t0 = Instant::now();
    let exe = std::env::current_exe().expect("current_exe");
    let work = format!("{}/work/{}", a.verif_dir, P::ID);
    let _ = std::fs::remove_dir_all(&work);
    let _ = std::fs::create_dir_all(&work);
    let ncpu = std::thread::available_parallelism().map(|n| n.get()).unwrap_or(4);
    let nshards = ncpu.min(P::max_workers()).max(1) as u64;
    let agg = Arc::new(Mutex::new(Agg::default()));
    let mut violations: Vec<String> = vec![];
    let mut inconclusive: Vec<String> = vec![];
    let mut known_lines: Vec<String> = vec![];

    // 1. committed regression replays
    let reg_dir = format!("{}/replays/{}", a.verif_dir, P::ID);
    let mut reg_count = 0u64;
    if let Ok(rd) = std::fs::read_dir(&reg_dir) {
        let mut files: Vec<_> = rd
            .filter_map(|e| e.ok())
            .map(|e| e.path())
            .filter(|p| {
                p.file_name()
                    .and_then(|n| n.to_str())
                    .map(|n| n.starts_with("reg_") && n.ends_with(".json"))
                    .unwrap_or(false)
            })
            .collect();
        files.sort();
        for f in files {
            reg_count += 1;
            let fp = f.to_string_lossy().to_string();
            let st = run_with_timeout(
                Command::new(&exe)
                    .args(["replay", P::ID, &fp, "--quiet", "--deadline"])
                    .arg(P::case_deadline_s().to_string())
                    .env("RUST_BACKTRACE", "0"),
                Duration::from_secs(P::case_deadline_s() + 30),
            );
            match st {
                RunOutcome::Exit(0) => {}
                RunOutcome::Exit(1) | RunOutcome::Signal => {
                    println!("regression replay fails: {}", fp);
                    violations.push(fp);
                }
                RunOutcome::Exit(4) | RunOutcome::Timeout => {
                    if P::TERMINATION {
                        println!("regression replay hangs: {}", fp);
                        violations.push(fp);
                    } else {
                        inconclusive.push(format!("regression replay {} timed out", fp));
                    }
                }
                RunOutcome::Exit(c) => inconclusive.push(format!("regression replay {} exit {}", fp, c)),
            }
        }
    }

    // 2. known-finding probes
    for (fid, what, case) in P::probes() {
        let path = format!("{}/probe_{}.json", work, fid);
        let _ = std::fs::write(
            &path,
            serde_json::json!({"property": P::ID, "case": case, "msg": format!("probe for {}", fid)}).to_string(),
        );
        let st = run_with_timeout(
            Command::new(&exe)
                .args(["replay", P::ID, &path, "--quiet", "--deadline", "10", "--probe"])
                .env("RUST_BACKTRACE", "0"),
            Duration::from_secs(40),
        );
        match st {
            RunOutcome::Exit(0) => {
                println!(
                    "note: known finding {} ({}) no longer reproduces on this tree",
                    fid, P::ID
                );
            }
            RunOutcome::Exit(2) => {}
            _ => {
                let l = format!("KNOWN-FINDING: property={} {} {}", P::ID, fid, what);
                println!("{}", l);
                known_lines.push(l);
            }
        }
    }

    // 3. workers; a shard whose case hit the deadline only because the machine was busy (it passes
    //    alone, three times) is resumed after that case, so a slow case costs one case, not a shard
    let mut pending: Vec<(u64, Option<String>)> = (0..nshards).map(|s| (s, None)).collect();
    let mut resumed: BTreeMap<u64, u32> = BTreeMap::new();
    let mut fails_all: Vec<(u64, String, serde_json::Value)> = vec![];
    let mut unconfirmed = 0u64;
    let mut stopped_shards = 0u64;
    loop {
    let mut next_pending: Vec<(u64, Option<String>)> = vec![];
    let mut children = vec![];
    for (shard, resume_after) in pending.drain(..) {
        let mut cmd = Command::new(&exe);
        cmd.args([
            "worker",
            P::ID,
            "--tier",
            a.tier.name(),
            "--seed",
            &a.seed.to_string(),
            "--shard",
            &shard.to_string(),
            "--nshards",
            &nshards.to_string(),
        ]);
        if let Some(r) = &resume_after {
            cmd.args(["--resume-after", r]);
        }
        cmd.env("RUST_BACKTRACE", "0")
        .env("VERIF_TIER", a.tier.name())
        .stdout(Stdio::piped())
        .stderr(Stdio::null());
        let mut child = cmd.spawn().expect("spawn worker");
        let stdout = child.stdout.take().unwrap();
        let agg2 = agg.clone();
        let th = std::thread::spawn(move || {
            let rd = BufReader::new(stdout);
            let mut inflight: Option<String> = None;
            let mut finished = false;
            for line in rd.lines() {
                let line = match line {
                    Ok(l) => l,
                    Err(_) => break,
                };
                let mut g = agg2.lock().unwrap();
                if let Some(r) = line.strip_prefix("S ") {
                    inflight = Some(r.to_string());
                } else if let Some(r) = line.strip_prefix("E ") {
                    inflight = None;
                    if r.starts_with('G') {
                        g.generated_run += 1;
                    }
                    let p: Vec<&str> = r.splitn(6, ' ').collect();
                    if p.len() >= 5 {
                        g.evaluations += 1 + p[3].parse::<u64>().unwrap_or(0);
                        if p[1] == "1" {
                            g.nt_hashes.insert(p[2].parse().unwrap_or(0));
                        }
                        g.nt_extra += p[4].parse::<u64>().unwrap_or(0);
                        if p.len() == 6 {
                            for l in p[5].split(',').filter(|s| !s.is_empty()) {
                                *g.labels.entry(l.to_string()).or_insert(0) += 1;
                            }
                        }
                    }
                } else if let Some(r) = line.strip_prefix("SAMPLE ") {
                    if let Ok(v) = serde_json::from_str(r) {
                        g.samples.push(v);
                    }
                } else if let Some(r) = line.strip_prefix("SUBSAMPLE ") {
                    if g.subsamples.len() < 40 {
                        if let Ok(v) = serde_json::from_str(r) {
                            g.subsamples.push(v);
                        }
                    }
                } else if let Some(r) = line.strip_prefix("NOTE ") {
                    if g.notes.len() < 50 && !g.notes.iter().any(|n| n == r) {
                        g.notes.push(r.to_string());
                    }
                } else if let Some(r) = line.strip_prefix("FAIL ") {
                    inflight = None;
                    finished = true;
                    let mut it = r.splitn(2, ' ');
                    let idx = it.next().unwrap_or("").to_string();
                    let v: serde_json::Value =
                        serde_json::from_str(it.next().unwrap_or("null")).unwrap_or(serde_json::Value::Null);
                    g.fails.push((shard, idx, v));
                } else if let Some(r) = line.strip_prefix("HANGSUB ") {
                    if let Ok(v) = serde_json::from_str(r) {
                        g.hang_subs.insert(shard, v);
                    }
                } else if let Some(r) = line.strip_prefix("HANG ") {
                    inflight = None;
                    finished = true;
                    g.hangs.push((shard, r.to_string()));
                } else if line == "DONE" {
                    finished = true;
                    g.done += 1;
                }
            }
            if !finished {
                let mut g = agg2.lock().unwrap();
                g.crashes.push((shard, inflight.unwrap_or_else(|| "?".into())));
            }
        });
        children.push((child, th));
    }
    for (mut c, th) in children {
        let _ = c.wait();
        let _ = th.join();
    }
    let mut g = agg.lock().unwrap();
    g.hang_subs_round_done();

    // 4. failures
    let fails = std::mem::take(&mut g.fails);
    for (_shard, _idx, v) in fails.iter() {
        let case = v.get("case").cloned().unwrap_or(serde_json::Value::Null);
        let msg = v.get("msg").and_then(|m| m.as_str()).unwrap_or("").to_string();
        let path = write_replay(&a.verif_dir, P::ID, &case, &msg, a.seed);
        println!("failure: {}", msg);
        println!("VIOLATION property={} replay={}", P::ID, path);
        violations.push(path);
    }
    // hangs and crashes: regenerate, confirm alone, shrink externally
    let mut suspects: Vec<(u64, String, bool)> = vec![];
    for (s, i) in std::mem::take(&mut g.hangs) {
        suspects.push((s, i, true));
    }
    for (s, i) in std::mem::take(&mut g.crashes) {
        suspects.push((s, i, false));
    }
    let mut examined = 0usize;
    for (shard, idx, was_hang) in suspects {
        // a failing tree usually makes every worker stop at the same defect: confirm and shrink
        // the first two suspects, then stop spending minutes on more of the same
        if examined >= 2 && !violations.is_empty() {
            println!("note: suspect case {} of shard {} not examined (a violation is already reported)", idx, shard);
            continue;
        }
        examined += 1;
        if idx == "?" {
            inconclusive.push(format!("worker {} died outside a case", shard));
            continue;
        }
        let wa = WorkerArgs {
            tier: a.tier,
            seed: a.seed,
            shard,
            nshards,
            resume_after: None,
        };
        let sub_case: Option<P::Case> = if was_hang {
            g.hang_subs.get(&shard).and_then(|v| serde_json::from_value(v.clone()).ok())
        } else {
            None
        };
        let from_sub = sub_case.is_some();
        let case = match sub_case.or_else(|| dump::<P>(&wa, &idx)) {
            Some(c) => c,
            None => {
                inconclusive.push(format!("cannot regenerate case {} of shard {}", idx, shard));
                continue;
            }
        };
        let path = format!("{}/suspect_{}_{}.json", work, shard, idx.replace('~', "_"));
        let cv = serde_json::to_value(&case).unwrap();
        let _ = std::fs::write(
            &path,
            serde_json::json!({"property": P::ID, "case": cv, "msg": "suspect"}).to_string(),
        );
        // confirm alone with a long deadline; a case that passes is tried three times (a rare
        // timing-dependent hang must not be waved through, a loaded machine must not raise an alarm)
        let mut confirmed = false;
        let mut kind = "passes alone (3 runs)";
        for _ in 0..3 {
            let st = run_with_timeout(
                Command::new(&exe)
                    .args(["replay", P::ID, &path, "--quiet", "--deadline", "90"])
                    .env("RUST_BACKTRACE", "0"),
                Duration::from_secs(120),
            );
            match st {
                RunOutcome::Exit(0) => continue,
                RunOutcome::Exit(1) => {
                    confirmed = true;
                    kind = "oracle failure";
                }
                RunOutcome::Exit(4) | RunOutcome::Timeout => {
                    confirmed = true;
                    kind = "hang";
                }
                RunOutcome::Signal => {
                    confirmed = true;
                    kind = "abort";
                }
                RunOutcome::Exit(_) => {
                    kind = "inconclusive";
                }
            }
            break;
        }
        if !confirmed && kind.starts_with("passes alone") {
            // slow under load, not a finding: recorded in the evidence; the shard goes on after it
            let r = resumed.entry(shard).or_insert(0);
            *r += 1;
            let go_on = *r <= 40;
            let n = format!(
                "case {} of shard {} {} but passed 3 runs alone with a 90 s deadline (machine load); {}",
                idx,
                shard,
                if was_hang { "hit the per-case deadline" } else { "lost its worker" },
                if go_on { "the shard was resumed after it" } else { "the shard stopped there (resumed 40 times already)" }
            );
            println!("note: {}", n);
            if g.notes.len() < 80 {
                g.notes.push(n);
            }
            unconfirmed += 1;
            if go_on {
                next_pending.push((shard, Some(idx.trim_end_matches("~shrink").to_string())));
            } else {
                stopped_shards += 1;
            }
            continue;
        }
        if !confirmed {
            inconclusive.push(format!(
                "case {} of shard {} {} ({}) but {}",
                idx,
                shard,
                if was_hang { "hit the deadline" } else { "crashed the worker" },
                path,
                kind
            ));
            continue;
        }
        if kind == "hang" && !P::TERMINATION {
            inconclusive.push(format!(
                "case {} of shard {} hangs (confirmed); {} does not own termination — see {}",
                idx, shard, P::ID, path
            ));
            // keep the case for inspection
            let keep = write_replay(&a.verif_dir, P::ID, &cv, "hang (inconclusive for this property)", a.seed);
            println!("inconclusive hang kept at {}", keep);
            continue;
        }
        let best = if idx.starts_with('G') && !from_sub {
            shrink_external::<P>(&wa, &idx, &work).unwrap_or(case)
        } else {
            case
        };
        let bv = serde_json::to_value(&best).unwrap();
        let msg = format!("{} (confirmed alone with a 90 s deadline)", kind);
        let rp = write_replay(&a.verif_dir, P::ID, &bv, &msg, a.seed);
        println!("failure: {}", msg);
        println!("VIOLATION property={} replay={}", P::ID, rp);
        violations.push(rp);
    }

    fails_all.extend(fails);
    drop(g);
    if next_pending.is_empty() || !violations.is_empty() {
        break;
    }
    pending = next_pending;
    }
    let fails = fails_all;
    let mut g = agg.lock().unwrap();

    // 5. evidence
    let mut samples: Vec<serde_json::Value> = vec![];
    g.samples.sort_by_key(|s| s.to_string().len());
    let ns = g.samples.len();
    if ns > 0 {
        samples.push(g.samples[0].clone());
        if ns > 2 {
            samples.push(g.samples[ns / 2].clone());
        }
        if ns > 1 {
            samples.push(g.samples[ns - 1].clone());
        }
    }
    for s in g.subsamples.iter().take(6) {
        samples.push(s.clone());
    }
    if samples.is_empty() {
        // no non-trivial case finished (e.g. every worker stopped at a failure): show what failed
        for (_, _, v) in fails.iter().take(2) {
            if let Some(c) = v.get("case") {
                samples.push(c.clone());
            }
        }
    }
    if samples.is_empty() {
        if let Some(c) = P::fixed_cases(a.tier).into_iter().next() {
            samples.push(serde_json::to_value(&c).unwrap_or(serde_json::Value::Null));
        } else if let Some(c) = dump::<P>(&WorkerArgs { tier: a.tier, seed: a.seed, shard: 0, nshards, resume_after: None }, "G0") {
            samples.push(serde_json::to_value(&c).unwrap_or(serde_json::Value::Null));
        }
    }
    let distinct = g.nt_hashes.len() as u64 + g.nt_extra;
    let wall = t0.elapsed().as_secs_f64();
    let evidence = serde_json::json!({
        "property_id": P::ID,
        "tier": a.tier.name(),
        "seed": a.seed,
        "level": P::LEVEL,
        "coverage": {
            "evaluations": g.evaluations + reg_count,
            "distinct_nontrivial": distinct,
            "rule": P::rule(),
            "samples": samples,
            "exhaustive": P::exhaustive(a.tier),
            "generated_cases": g.generated_run,
            "generated_cases_planned": P::cases(a.tier),
            "cases_skipped_slow_under_load": unconfirmed,
            "fixed_cases": P::fixed_cases(a.tier).len(),
            "regression_replays": reg_count,
            "labels": g.labels,
            "workers": nshards,
            "workers_completed": g.done,
            "notes": g.notes,
            "known_findings_reported": known_lines,
            "inconclusive": inconclusive,
            "technique": P::technique(),
        },
        "assumptions": P::assumptions(),
        "wall_s": wall,
        "violations": violations.len(),
    });
    let ev_dir = format!("{}/evidence", a.verif_dir);
    let _ = std::fs::create_dir_all(&ev_dir);
    let _ = std::fs::write(
        format!("{}/{}.json", ev_dir, P::ID),
        serde_json::to_string_pretty(&evidence).unwrap(),
    );
    println!(
        "{} {}: evaluations={} distinct_nontrivial={} violations={} inconclusive={} wall={:.1}s",
        P::ID,
        a.tier.name(),
        g.evaluations + reg_count,
        distinct,
        violations.len(),
        inconclusive.len(),
        wall
    );
    for i in &inconclusive {
        println!("inconclusive: {}", i);
    }
    if !violations.is_empty() {
        return 1;
    }
    if !inconclusive.is_empty() || g.done + stopped_shards < nshards {
        return 2;
    }
    0
}

// ---------------------------------------------------------------------------------------------
// command line

pub fn arg_val(args: &[String], name: &str) -> Option<String> {
    args.iter().position(|a| a == name).and_then(|i| args.get(i + 1).cloned())
}

pub fn dispatch<P: Prop>(args: &[String], verif_dir: &str) -> i32 {
    let mode = args.get(0).map(|s| s.as_str()).unwrap_or("");
    let tier = Tier::parse(&arg_val(args, "--tier").unwrap_or_else(|| "quick".into()));
    let seed: u64 = arg_val(args, "--seed")
        .or_else(|| std::env::var("VERIF_SEED").ok())
        .and_then(|s| s.parse().ok())
        .unwrap_or(1);
    match mode {
        "run" => parent::<P>(&ParentArgs {
            tier,
            seed,
            verif_dir: verif_dir.to_string(),
        }),
        "worker" => {
            let wa = WorkerArgs {
                tier,
                seed,
                shard: arg_val(args, "--shard").and_then(|s| s.parse().ok()).unwrap_or(0),
                nshards: arg_val(args, "--nshards").and_then(|s| s.parse().ok()).unwrap_or(1),
                resume_after: arg_val(args, "--resume-after"),
            };
            worker::<P>(&wa)
        }
        "dump" => {
            let wa = WorkerArgs {
                tier,
                seed,
                shard: arg_val(args, "--shard").and_then(|s| s.parse().ok()).unwrap_or(0),
                nshards: arg_val(args, "--nshards").and_then(|s| s.parse().ok()).unwrap_or(1),
                resume_after: None,
            };
            match dump::<P>(&wa, &arg_val(args, "--idx").unwrap_or_default()) {
                Some(c) => {
                    println!("{}", serde_json::to_string_pretty(&c).unwrap());
                    0
                }
                None => 2,
            }
        }
        "replay" => {
            let path = args.get(2).cloned().unwrap_or_default();
            let quiet = args.iter().any(|a| a == "--quiet");
            let deadline = arg_val(args, "--deadline")
                .and_then(|s| s.parse().ok())
                .unwrap_or(P::case_deadline_s());
            if args.iter().any(|a| a == "--probe") {
                std::env::set_var("VERIF_PROBE", "1");
            }
            replay::<P>(&path, quiet, deadline)
        }
        _ => {
            eprintln!("usage: vcheck run|worker|dump|replay <ID> ...");
            2
        }
    }
}
