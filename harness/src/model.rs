//! Reference models: plain data + obviously-correct functions. No bigtools code is used here.
use serde::{Deserialize, Serialize};

pub mod f32_exact {
    //! f32 <-> JSON through f64 (exact widening; narrowing an exactly-representable value is exact)
    use serde::{Deserialize, Deserializer, Serializer};
    pub fn serialize<S: Serializer>(v: &f32, s: S) -> Result<S::Ok, S::Error> {
        s.serialize_f64(*v as f64)
    }
    pub fn deserialize<'de, D: Deserializer<'de>>(d: D) -> Result<f32, D::Error> {
        let x = f64::deserialize(d)?;
        Ok(x as f32)
    }
}

#[derive(Serialize, Deserialize, Clone, Debug, PartialEq)]
pub struct BwVal {
    pub s: u32,
    pub e: u32,
    #[serde(with = "f32_exact")]
    pub v: f32,
}

#[derive(Serialize, Deserialize, Clone, Debug, PartialEq)]
pub struct BwChrom {
    pub name: String,
    pub size: u32,
    pub vals: Vec<BwVal>,
}

#[derive(Serialize, Deserialize, Clone, Debug, PartialEq)]
pub struct BwInput {
    pub chroms: Vec<BwChrom>,
    /// entries of the size map that have no data
    pub unused: Vec<(String, u32)>,
}

#[derive(Serialize, Deserialize, Clone, Debug, PartialEq)]
pub struct BbEntry {
    pub s: u32,
    pub e: u32,
    pub rest: String,
}

#[derive(Serialize, Deserialize, Clone, Debug, PartialEq)]
pub struct BbChrom {
    pub name: String,
    pub size: u32,
    pub entries: Vec<BbEntry>,
}

#[derive(Serialize, Deserialize, Clone, Debug, PartialEq)]
pub struct BbInput {
    pub chroms: Vec<BbChrom>,
    pub unused: Vec<(String, u32)>,
    pub autosql: Option<String>,
}

#[derive(Serialize, Deserialize, Clone, Debug, PartialEq)]
pub enum ZoomSpec {
    Auto { initial: u32, max: u32 },
    Manual(Vec<u32>),
}

#[derive(Serialize, Deserialize, Clone, Copy, Debug, PartialEq)]
pub enum SourceKind {
    Infallible,
    Fallible,
    SerialText,
    ParallelText,
}

#[derive(Serialize, Deserialize, Clone, Debug, PartialEq)]
pub struct Opts {
    pub compress: bool,
    pub items_per_slot: u32,
    pub block_size: u32,
    pub zoom: ZoomSpec,
    pub channel_size: usize,
    pub inmemory: bool,
    /// 0 = current-thread runtime, n = multi-thread runtime with n workers
    pub threads: u8,
    pub multipass: bool,
    pub source: SourceKind,
    /// chromosomes must be sorted (InputSortType::ALL / allow_out_of_order_chroms = false)
    pub sorted_chroms: bool,
    /// text sources: the rendered text ends without a final newline
    #[serde(default)]
    pub no_final_newline: bool,
    /// with a manual zoom list: the (independent) max_zooms option is set to this as well
    #[serde(default)]
    pub max_zooms_with_manual: Option<u32>,
}

impl Default for Opts {
    fn default() -> Self {
        Opts {
            compress: true,
            items_per_slot: 1024,
            block_size: 256,
            zoom: ZoomSpec::Auto { initial: 160, max: 10 },
            channel_size: 100,
            inmemory: true,
            threads: 0,
            multipass: false,
            source: SourceKind::Infallible,
            sorted_chroms: true,
            no_final_newline: false,
            max_zooms_with_manual: None,
        }
    }
}

// ---------------------------------------------------------------------------------------------
// bigWig model

#[derive(Clone, Debug, Default, PartialEq)]
pub struct Stats {
    pub bases: u64,
    pub min: f64,
    pub max: f64,
    pub sum: f64,
    pub sumsq: f64,
    /// Σ |len·v| and Σ |len·v²| — scales for tolerant comparison
    pub abs_sum: f64,
    pub abs_sumsq: f64,
    /// number of positive-length contributors
    pub n: u64,
}

impl Stats {
    pub fn empty() -> Stats {
        Stats {
            bases: 0,
            min: f64::INFINITY,
            max: f64::NEG_INFINITY,
            sum: 0.0,
            sumsq: 0.0,
            abs_sum: 0.0,
            abs_sumsq: 0.0,
            n: 0,
        }
    }
    pub fn add(&mut self, len: u64, v: f64) {
        if len == 0 {
            return;
        }
        self.bases += len;
        self.min = self.min.min(v);
        self.max = self.max.max(v);
        self.sum += len as f64 * v;
        self.sumsq += len as f64 * v * v;
        self.abs_sum += (len as f64 * v).abs();
        self.abs_sumsq += len as f64 * v * v;
        self.n += 1;
    }
}

impl BwChrom {
    /// values overlapping [s,e) (positive-length overlap), clipped, in order
    pub fn range_strict(&self, s: u32, e: u32) -> Vec<BwVal> {
        let mut out = vec![];
        for v in &self.vals {
            let cs = v.s.max(s);
            let ce = v.e.min(e);
            if cs < ce {
                out.push(BwVal { s: cs, e: ce, v: v.v });
            }
        }
        out
    }
    /// per-base array over [s,e): None where no positive-length value covers the base
    pub fn per_base(&self, s: u32, e: u32) -> Vec<Option<f32>> {
        let mut out = vec![None; (e - s) as usize];
        for v in &self.vals {
            let cs = v.s.max(s);
            let ce = v.e.min(e);
            for p in cs..ce.max(cs) {
                out[(p - s) as usize] = Some(v.v);
            }
        }
        out
    }
    /// statistics of the stored values inside [s,e) weighted by clipped length
    pub fn stats(&self, s: u32, e: u32) -> Stats {
        let mut st = Stats::empty();
        for v in &self.vals {
            let cs = v.s.max(s);
            let ce = v.e.min(e);
            if cs < ce {
                st.add((ce - cs) as u64, v.v as f64);
            }
        }
        st
    }
    pub fn has_zero_length(&self) -> bool {
        self.vals.iter().any(|v| v.s == v.e)
    }
}

impl BwInput {
    pub fn total_stats(&self) -> Stats {
        let mut st = Stats::empty();
        for c in &self.chroms {
            for v in &c.vals {
                st.add((v.e - v.s) as u64, v.v as f64);
            }
        }
        st
    }
    pub fn n_items(&self) -> usize {
        self.chroms.iter().map(|c| c.vals.len()).sum()
    }
}

// ---------------------------------------------------------------------------------------------
// bigBed model

/// piecewise-constant coverage depth: disjoint sorted (start, end, depth>=1) runs, maximal
pub fn depth_runs(entries: &[BbEntry]) -> Vec<(u32, u32, u32)> {
    // sweep over +1/-1 events; independent of the writer's overlap list
    let mut ev: Vec<(u32, i32)> = Vec::with_capacity(entries.len() * 2);
    for e in entries {
        if e.e > e.s {
            ev.push((e.s, 1));
            ev.push((e.e, -1));
        }
    }
    ev.sort();
    let mut out: Vec<(u32, u32, u32)> = vec![];
    let mut depth: i64 = 0;
    let mut i = 0;
    let mut prev_pos = 0u32;
    while i < ev.len() {
        let pos = ev[i].0;
        if depth > 0 && pos > prev_pos {
            match out.last_mut() {
                Some(l) if l.1 == prev_pos && l.2 == depth as u32 => l.1 = pos,
                _ => out.push((prev_pos, pos, depth as u32)),
            }
        }
        while i < ev.len() && ev[i].0 == pos {
            depth += ev[i].1 as i64;
            i += 1;
        }
        prev_pos = pos;
    }
    out
}

pub fn depth_stats(runs: &[(u32, u32, u32)], s: u32, e: u32) -> Stats {
    let mut st = Stats::empty();
    for r in runs {
        let cs = r.0.max(s);
        let ce = r.1.min(e);
        if cs < ce {
            st.add((ce - cs) as u64, r.2 as f64);
        }
    }
    st
}

impl BbChrom {
    /// entries that must be returned for [s,e): positive overlap, or (for zero-length entries
    /// and nothing else) nothing — see rule 2/3 of DESIGN 1.4
    pub fn must(&self, s: u32, e: u32) -> Vec<usize> {
        self.entries
            .iter()
            .enumerate()
            .filter(|(_, x)| x.e > x.s && x.s < e && x.e > s && e > s)
            .map(|(i, _)| i)
            .collect()
    }
    /// entries that may be returned: not wholly outside [s,e]
    pub fn may(&self, s: u32, e: u32) -> Vec<usize> {
        self.entries
            .iter()
            .enumerate()
            .filter(|(_, x)| x.s <= e && x.e >= s)
            .map(|(i, _)| i)
            .collect()
    }
}

impl BbInput {
    pub fn n_items(&self) -> usize {
        self.chroms.iter().map(|c| c.entries.len()).sum()
    }
    pub fn total_stats(&self) -> Stats {
        let mut st = Stats::empty();
        for c in &self.chroms {
            let runs = depth_runs(&c.entries);
            for r in runs {
                st.add((r.1 - r.0) as u64, r.2 as f64);
            }
        }
        st
    }
}

// ---------------------------------------------------------------------------------------------
// float comparison helpers (DESIGN 1.4 rule 4)

pub fn close_f64(a: f64, b: f64, scale: f64) -> bool {
    if a == b {
        return true;
    }
    if a.is_nan() || b.is_nan() {
        return a.is_nan() && b.is_nan();
    }
    if a.is_infinite() || b.is_infinite() {
        return a == b;
    }
    (a - b).abs() <= 1e-9 * scale.abs().max(f64::MIN_POSITIVE)
}

/// compare a value that was narrowed to f32 in the file with the f64 model value
pub fn close_f32(file: f64, model: f64, scale: f64) -> bool {
    let m32 = model as f32;
    let f32v = file as f32;
    if f32v == m32 {
        return true;
    }
    if m32.is_infinite() || f32v.is_infinite() {
        // the model overflows f32 or the accumulated value does: accept inf vs > f32::MAX/2 scale
        return m32.is_infinite() && f32v.is_infinite() && (m32 > 0.0) == (f32v > 0.0)
            || (scale as f32).is_infinite();
    }
    if m32.is_nan() || f32v.is_nan() {
        return false;
    }
    let s32 = (scale.abs() as f32).max(f32::MIN_POSITIVE);
    let ulp = if s32.is_infinite() {
        f32::MAX
    } else {
        let next = f32::from_bits(s32.to_bits() + 1);
        (next - s32).max(f32::from_bits(1))
    };
    ((file - model).abs() as f32) <= 4.0 * ulp
}

pub fn index_depth(n_blocks: usize, block_size: u32) -> usize {
    // number of tree levels above the leaf level as get_rtreeindex builds it
    let b = block_size.max(2) as usize;
    let mut nodes = (n_blocks + b - 1) / b;
    let mut levels = 0;
    while nodes > 1 {
        nodes = (nodes + b - 1) / b;
        levels += 1;
    }
    levels
}

// ---------------------------------------------------------------------------------------------
// zoom oracle (C07, C08, C09)

#[derive(Clone, Debug, PartialEq)]
pub struct ZRec {
    pub chrom: u32,
    pub start: u32,
    pub end: u32,
    pub valid: u64,
    pub min: f64,
    pub max: f64,
    pub sum: f64,
    pub sumsq: f64,
}

/// data of one chromosome as disjoint sorted positive-length runs (start, end, value) plus the
/// values of zero-length items (position, value) which may or may not take part in min/max
#[derive(Clone, Debug, Default)]
pub struct ChromSignal {
    pub id: u32,
    pub name: String,
    pub runs: Vec<(u32, u32, f64)>,
    pub zero_len: Vec<(u32, f64)>,
}

pub fn bw_signal(c: &BwChrom, id: u32) -> ChromSignal {
    ChromSignal {
        id,
        name: c.name.clone(),
        runs: c.vals.iter().filter(|v| v.e > v.s).map(|v| (v.s, v.e, v.v as f64)).collect(),
        zero_len: c.vals.iter().filter(|v| v.e == v.s).map(|v| (v.s, v.v as f64)).collect(),
    }
}

pub fn bb_signal(c: &BbChrom, id: u32) -> ChromSignal {
    ChromSignal {
        id,
        name: c.name.clone(),
        runs: depth_runs(&c.entries).into_iter().map(|r| (r.0, r.1, r.2 as f64)).collect(),
        zero_len: vec![],
    }
}

fn run_stats(runs: &[(u32, u32, f64)], s: u32, e: u32) -> Stats {
    let mut st = Stats::empty();
    // binary search for the first run ending after s
    let mut i = runs.partition_point(|r| r.1 <= s);
    while i < runs.len() && runs[i].0 < e {
        let cs = runs[i].0.max(s);
        let ce = runs[i].1.min(e);
        if cs < ce {
            st.add((ce - cs) as u64, runs[i].2);
        }
        i += 1;
    }
    st
}

/// Check one zoom level against the signal. `exact` = statistics are small integers (bigBed
/// depth): compare exactly after f32 narrowing; otherwise rule 4 tolerance.
pub fn zoom_level_check(resolution: u32, recs: &[ZRec], signals: &[ChromSignal]) -> Result<(), String> {
    // order + disjointness + length
    for w in recs.windows(2) {
        let (a, b) = (&w[0], &w[1]);
        if (a.chrom, a.start) > (b.chrom, b.start) {
            return Err(format!("records out of order: {:?} before {:?}", a, b));
        }
        if a.chrom == b.chrom && a.end > b.start {
            return Err(format!("records overlap: {:?} and {:?}", a, b));
        }
    }
    for r in recs {
        if r.end < r.start {
            return Err(format!("record with end < start: {:?}", r));
        }
        if r.end - r.start > resolution {
            return Err(format!("record longer than the resolution {}: {:?}", resolution, r));
        }
    }
    for sig in signals {
        let rs: Vec<&ZRec> = recs.iter().filter(|r| r.chrom == sig.id).collect();
        let total: u64 = sig.runs.iter().map(|r| (r.1 - r.0) as u64).sum();
        let mut covered_by_records = 0u64;
        for r in &rs {
            let st = run_stats(&sig.runs, r.start, r.end);
            covered_by_records += st.bases;
            if r.valid != st.bases {
                return Err(format!(
                    "chromosome {:?}: record [{}, {}) reports {} covered bases, the data has {} in that span",
                    sig.name, r.start, r.end, r.valid, st.bases
                ));
            }
            if st.bases == 0 {
                if r.sum != 0.0 || r.sumsq != 0.0 {
                    return Err(format!(
                        "chromosome {:?}: record [{}, {}) covers no data but has sum {} / sumsq {}",
                        sig.name, r.start, r.end, r.sum, r.sumsq
                    ));
                }
                continue;
            }
            // min / max: zero-length items touching [start,end] may take part
            let zl: Vec<f64> = sig
                .zero_len
                .iter()
                .filter(|z| z.0 >= r.start && z.0 <= r.end)
                .map(|z| z.1)
                .collect();
            let min_ok = (r.min as f32) == (st.min as f32)
                || zl.iter().any(|z| (*z as f32) == (r.min as f32) && *z < st.min);
            let max_ok = (r.max as f32) == (st.max as f32)
                || zl.iter().any(|z| (*z as f32) == (r.max as f32) && *z > st.max);
            if !min_ok {
                return Err(format!(
                    "chromosome {:?}: record [{}, {}) min = {}, data in that span has min {}",
                    sig.name, r.start, r.end, r.min, st.min
                ));
            }
            if !max_ok {
                return Err(format!(
                    "chromosome {:?}: record [{}, {}) max = {}, data in that span has max {}",
                    sig.name, r.start, r.end, r.max, st.max
                ));
            }
            if !close_f32(r.sum, st.sum, st.abs_sum) {
                return Err(format!(
                    "chromosome {:?}: record [{}, {}) sum = {}, data in that span sums to {}",
                    sig.name, r.start, r.end, r.sum, st.sum
                ));
            }
            if !close_f32(r.sumsq, st.sumsq, st.abs_sumsq) {
                return Err(format!(
                    "chromosome {:?}: record [{}, {}) sum of squares = {}, data gives {}",
                    sig.name, r.start, r.end, r.sumsq, st.sumsq
                ));
            }
        }
        if covered_by_records != total {
            // find the first data base outside every record
            let mut ri = 0;
            for run in &sig.runs {
                let mut p = run.0;
                while p < run.1 {
                    while ri < rs.len() && rs[ri].end <= p {
                        ri += 1;
                    }
                    if ri >= rs.len() || rs[ri].start > p {
                        return Err(format!(
                            "chromosome {:?}: base {} has data but lies in no record of the {}-base level",
                            sig.name, p, resolution
                        ));
                    }
                    p = rs[ri].end.min(run.1);
                }
            }
            return Err(format!(
                "chromosome {:?}: records cover {} data bases, the data has {}",
                sig.name, covered_by_records, total
            ));
        }
    }
    // records of unknown chromosomes
    for r in recs {
        if !signals.iter().any(|s| s.id == r.chrom) {
            return Err(format!("record for chromosome id {} which has no data: {:?}", r.chrom, r));
        }
    }
    Ok(())
}
