use vharness::props;
use vharness::runner::dispatch;

fn main() {
    let args: Vec<String> = std::env::args().skip(1).collect();
    let verif = vharness::findings::verif_dir();
    let id = args.get(1).cloned().unwrap_or_default();
    if args.get(0).map(|s| s.as_str()) == Some("emit") {
        // vcheck emit C09 <n> <dir> [seed]: files for tools/decoder_crosscheck.sh
        let n: usize = args.get(2).and_then(|s| s.parse().ok()).unwrap_or(100);
        let dir = args.get(3).cloned().unwrap_or_else(|| "/verif/work/xcheck".into());
        let seed: u64 = args.get(4).and_then(|s| s.parse().ok()).unwrap_or(1);
        let w = props::c09::emit_files(seed, n, &dir);
        println!("wrote {} files to {}", w, dir);
        return;
    }
    let code = match id.as_str() {
        "C01" => dispatch::<props::c01::C01>(&args, &verif),
        "C02" => dispatch::<props::c02::C02>(&args, &verif),
        "C03" => dispatch::<props::c03::C03>(&args, &verif),
        "C04" => dispatch::<props::c04::C04>(&args, &verif),
        "C05" => dispatch::<props::c05::C05>(&args, &verif),
        "C06" => dispatch::<props::c06::C06>(&args, &verif),
        "C07" => dispatch::<props::c07::C07>(&args, &verif),
        "C08" => dispatch::<props::c08::C08>(&args, &verif),
        "C09" => dispatch::<props::c09::C09>(&args, &verif),
        "C10" => dispatch::<props::c10::C10>(&args, &verif),
        "C11" => dispatch::<props::c11::C11>(&args, &verif),
        "C12" => dispatch::<props::c12::C12>(&args, &verif),
        "C13" => dispatch::<props::c13::C13>(&args, &verif),
        "C14" => dispatch::<props::c14::C14>(&args, &verif),
        "C15" => dispatch::<props::c15::C15>(&args, &verif),
        "C16" => dispatch::<props::c16::C16>(&args, &verif),
        "C17" => dispatch::<props::c17::C17>(&args, &verif),
        "C18" => dispatch::<props::c18::C18>(&args, &verif),
        "C19" => dispatch::<props::c19::C19>(&args, &verif),
        _ => {
            eprintln!("unknown property id {:?}", id);
            2
        }
    };
    std::process::exit(code);
}
