//! Independent BBI (bigWig / bigBed) decoder + structural validator.
//! std + miniz_oxide only: no bigtools code, no libdeflate. Written from the published format
//! description (Kent et al. 2010, supplementary tables) — accepts any legal layout.

#[derive(Clone, Debug, PartialEq)]
pub struct Leaf {
    pub start_chrom: u32,
    pub start_base: u32,
    pub end_chrom: u32,
    pub end_base: u32,
    pub offset: u64,
    pub size: u64,
}

#[derive(Clone, Debug, Default)]
pub struct IndexInfo {
    pub offset: u64,
    pub block_size: u32,
    pub item_count: u64,
    pub start_chrom: u32,
    pub start_base: u32,
    pub end_chrom: u32,
    pub end_base: u32,
    pub end_file_offset: u64,
    pub items_per_slot: u32,
    /// leaves in traversal (file) order
    pub leaves: Vec<Leaf>,
    /// number of node levels (1 = the root is a leaf node)
    pub levels: usize,
    pub node_count: usize,
    /// (offset, is_leaf, count) of every node, traversal order
    pub nodes: Vec<(u64, bool, u16)>,
}

#[derive(Clone, Debug)]
pub struct BwBlock {
    pub chrom: u32,
    pub start: u32,
    pub end: u32,
    pub step: u32,
    pub span: u32,
    pub kind: u8,
    pub items: Vec<(u32, u32, f32)>,
}

#[derive(Clone, Debug, PartialEq)]
pub struct BbItem {
    pub chrom: u32,
    pub start: u32,
    pub end: u32,
    pub rest: Vec<u8>,
}

#[derive(Clone, Debug, PartialEq)]
pub struct ZoomRec {
    pub chrom: u32,
    pub start: u32,
    pub end: u32,
    pub valid: u32,
    pub min: f32,
    pub max: f32,
    pub sum: f32,
    pub sumsq: f32,
}

#[derive(Clone, Debug)]
pub struct ZoomLevel {
    pub reduction: u32,
    pub reserved: u32,
    pub data_offset: u64,
    pub index_offset: u64,
    pub index: IndexInfo,
    /// records per block, block order = leaf order
    pub blocks: Vec<Vec<ZoomRec>>,
}

#[derive(Clone, Debug)]
pub struct Decoded {
    pub is_bigwig: bool,
    pub big_endian: bool,
    pub version: u16,
    pub zoom_levels: u16,
    pub chrom_tree_offset: u64,
    pub full_data_offset: u64,
    pub full_index_offset: u64,
    pub field_count: u16,
    pub defined_field_count: u16,
    pub autosql_offset: u64,
    pub total_summary_offset: u64,
    pub uncompress_buf_size: u32,
    pub reserved: u64,
    pub autosql: Option<Vec<u8>>,
    /// (valid count, min, max, sum, sumsq)
    pub summary: Option<(u64, f64, f64, f64, f64)>,
    pub data_count: u64,
    /// (name, id, size) in leaf order of the chromosome tree
    pub chroms: Vec<(String, u32, u32)>,
    pub chrom_key_size: u32,
    pub chrom_block_size: u32,
    pub chrom_tree_levels: usize,
    pub main_index: IndexInfo,
    pub bw_blocks: Vec<BwBlock>,
    pub bb_blocks: Vec<Vec<BbItem>>,
    pub zooms: Vec<ZoomLevel>,
    pub max_inflated: usize,
    pub has_end_magic: bool,
    /// width in bytes of the count field at fullDataOffset (UCSC bigWigs use 4, bigtools 8)
    pub data_count_width: u8,
}

pub const BIGWIG_MAGIC: u32 = 0x888F_FC26;
pub const BIGBED_MAGIC: u32 = 0x8789_F2EB;
pub const CHROM_TREE_MAGIC: u32 = 0x78CA_8C91;
pub const CIR_TREE_MAGIC: u32 = 0x2468_ACE0;

struct Rd<'a> {
    d: &'a [u8],
    be: bool,
    /// every rule on (what a current writer is held to); off for files some other tool laid out
    strict: bool,
}

impl<'a> Rd<'a> {
    fn need(&self, at: u64, n: u64, what: &str) -> Result<(), String> {
        if at.checked_add(n).map(|e| e <= self.d.len() as u64).unwrap_or(false) {
            Ok(())
        } else {
            Err(format!(
                "{}: needs bytes [{}, {}+{}) but the file has {} bytes",
                what,
                at,
                at,
                n,
                self.d.len()
            ))
        }
    }
    fn u8(&self, at: u64) -> u8 {
        self.d[at as usize]
    }
    fn u16(&self, at: u64) -> u16 {
        let b = [self.d[at as usize], self.d[at as usize + 1]];
        if self.be {
            u16::from_be_bytes(b)
        } else {
            u16::from_le_bytes(b)
        }
    }
    fn u32(&self, at: u64) -> u32 {
        let a = at as usize;
        let b = [self.d[a], self.d[a + 1], self.d[a + 2], self.d[a + 3]];
        if self.be {
            u32::from_be_bytes(b)
        } else {
            u32::from_le_bytes(b)
        }
    }
    fn u64(&self, at: u64) -> u64 {
        let a = at as usize;
        let mut b = [0u8; 8];
        b.copy_from_slice(&self.d[a..a + 8]);
        if self.be {
            u64::from_be_bytes(b)
        } else {
            u64::from_le_bytes(b)
        }
    }
    fn f32(&self, at: u64) -> f32 {
        f32::from_bits(self.u32(at))
    }
    fn f64(&self, at: u64) -> f64 {
        f64::from_bits(self.u64(at))
    }
}

fn cmp_pos(c1: u32, b1: u32, c2: u32, b2: u32) -> std::cmp::Ordering {
    (c1, b1).cmp(&(c2, b2))
}

fn read_chrom_node(
    r: &Rd,
    at: u64,
    key_size: u32,
    block_size: u32,
    depth: usize,
    out: &mut Vec<(String, u32, u32, Vec<u8>)>,
    max_depth: &mut usize,
) -> Result<(), String> {
    if depth > 16 {
        return Err("chromosome tree: deeper than 16 levels (cycle?)".into());
    }
    *max_depth = (*max_depth).max(depth);
    r.need(at, 4, "chromosome tree node header")?;
    let is_leaf = r.u8(at);
    let reserved = r.u8(at + 1);
    let count = r.u16(at + 2);
    if is_leaf > 1 {
        return Err(format!("chromosome tree node at {}: isLeaf = {}", at, is_leaf));
    }
    if reserved != 0 {
        return Err(format!("chromosome tree node at {}: reserved byte = {}", at, reserved));
    }
    if count as u32 > block_size {
        return Err(format!(
            "chromosome tree node at {}: {} items exceed the block size {}",
            at, count, block_size
        ));
    }
    if count == 0 {
        return Err(format!("chromosome tree node at {}: empty node", at));
    }
    let item = key_size as u64 + 8;
    r.need(at + 4, item * count as u64, "chromosome tree node items")?;
    for i in 0..count as u64 {
        let p = at + 4 + i * item;
        let key = &r.d[p as usize..(p + key_size as u64) as usize];
        if is_leaf == 1 {
            let id = r.u32(p + key_size as u64);
            let size = r.u32(p + key_size as u64 + 4);
            // key: name padded with NULs on the right
            let end = key.iter().position(|b| *b == 0).unwrap_or(key.len());
            if key[end..].iter().any(|b| *b != 0) {
                return Err(format!(
                    "chromosome tree: key {:?} is not NUL-padded on the right only",
                    String::from_utf8_lossy(key)
                ));
            }
            let name = std::str::from_utf8(&key[..end])
                .map_err(|_| "chromosome tree: key is not UTF-8".to_string())?
                .to_string();
            if name.is_empty() {
                return Err("chromosome tree: empty chromosome name".into());
            }
            out.push((name, id, size, key.to_vec()));
        } else {
            let child = r.u64(p + key_size as u64);
            read_chrom_node(r, child, key_size, block_size, depth + 1, out, max_depth)?;
        }
    }
    Ok(())
}

fn read_index(r: &Rd, at: u64, what: &str) -> Result<IndexInfo, String> {
    r.need(at, 48, &format!("{} header", what))?;
    let magic = r.u32(at);
    if magic != CIR_TREE_MAGIC {
        return Err(format!("{}: bad R-tree magic {:#x} at {}", what, magic, at));
    }
    let mut ix = IndexInfo {
        offset: at,
        block_size: r.u32(at + 4),
        item_count: r.u64(at + 8),
        start_chrom: r.u32(at + 16),
        start_base: r.u32(at + 20),
        end_chrom: r.u32(at + 24),
        end_base: r.u32(at + 28),
        end_file_offset: r.u64(at + 32),
        items_per_slot: r.u32(at + 40),
        ..Default::default()
    };
    let reserved = r.u32(at + 44);
    if reserved != 0 {
        return Err(format!("{}: reserved word = {}", what, reserved));
    }
    if ix.block_size == 0 {
        return Err(format!("{}: block size 0", what));
    }
    if ix.end_file_offset > r.d.len() as u64 {
        return Err(format!(
            "{}: endFileOffset {} is beyond the file ({} bytes)",
            what,
            ix.end_file_offset,
            r.d.len()
        ));
    }
    // walk
    let mut leaf_depths: Vec<usize> = vec![];
    walk_node(r, at + 48, None, 1, &mut ix, &mut leaf_depths, what)?;
    if let Some(d0) = leaf_depths.first() {
        // writers build the tree bottom-up (uniform depth); the format itself lets every node say
        // whether it is a leaf, so a foreign file may hang leaves at different depths
        if r.strict && leaf_depths.iter().any(|d| d != d0) {
            return Err(format!("{}: leaf nodes at different depths {:?}", what, leaf_depths));
        }
        ix.levels = *leaf_depths.iter().max().unwrap();
    }
    // itemCount is checked by the caller once the blocks are decoded: writers in the wild store
    // either the number of leaf items (sections) or the number of records beneath them
    // header bounds contain everything
    for l in &ix.leaves {
        if cmp_pos(l.start_chrom, l.start_base, ix.start_chrom, ix.start_base).is_lt()
            || cmp_pos(l.end_chrom, l.end_base, ix.end_chrom, ix.end_base).is_gt()
        {
            return Err(format!(
                "{}: header bounds ({},{})-({},{}) do not contain leaf ({},{})-({},{})",
                what, ix.start_chrom, ix.start_base, ix.end_chrom, ix.end_base, l.start_chrom, l.start_base, l.end_chrom, l.end_base
            ));
        }
    }
    // leaves ordered by (chrom, start)
    for w in ix.leaves.windows(2) {
        if cmp_pos(w[0].start_chrom, w[0].start_base, w[1].start_chrom, w[1].start_base).is_gt() {
            return Err(format!(
                "{}: leaves out of order: ({},{}) before ({},{})",
                what, w[0].start_chrom, w[0].start_base, w[1].start_chrom, w[1].start_base
            ));
        }
    }
    // data blocks inside the file, before endFileOffset, mutually disjoint
    let mut spans: Vec<(u64, u64)> = ix.leaves.iter().map(|l| (l.offset, l.offset + l.size)).collect();
    for (s, e) in &spans {
        if *e > r.d.len() as u64 || *e < *s {
            return Err(format!("{}: data block [{}, {}) outside the file", what, s, e));
        }
        if *e > ix.end_file_offset {
            return Err(format!(
                "{}: data block [{}, {}) ends after endFileOffset {}",
                what, s, e, ix.end_file_offset
            ));
        }
    }
    spans.sort();
    for w in spans.windows(2) {
        if w[0].1 > w[1].0 {
            return Err(format!(
                "{}: data blocks overlap: [{}, {}) and [{}, {})",
                what, w[0].0, w[0].1, w[1].0, w[1].1
            ));
        }
    }
    Ok(ix)
}

fn walk_node(
    r: &Rd,
    at: u64,
    parent: Option<(u32, u32, u32, u32)>,
    depth: usize,
    ix: &mut IndexInfo,
    leaf_depths: &mut Vec<usize>,
    what: &str,
) -> Result<(), String> {
    if depth > 32 {
        return Err(format!("{}: deeper than 32 levels (cycle?)", what));
    }
    r.need(at, 4, &format!("{} node header", what))?;
    let is_leaf = r.u8(at);
    let reserved = r.u8(at + 1);
    let count = r.u16(at + 2);
    if is_leaf > 1 {
        return Err(format!("{}: node at {}: isLeaf = {}", what, at, is_leaf));
    }
    if reserved != 0 {
        return Err(format!("{}: node at {}: reserved byte {}", what, at, reserved));
    }
    if count as u32 > ix.block_size {
        return Err(format!(
            "{}: node at {} has {} items, block size is {}",
            what, at, count, ix.block_size
        ));
    }
    if count == 0 {
        return Err(format!("{}: node at {} is empty", what, at));
    }
    ix.node_count += 1;
    ix.nodes.push((at, is_leaf == 1, count));
    let item = if is_leaf == 1 { 32 } else { 24 };
    r.need(at + 4, item * count as u64, &format!("{} node items", what))?;
    if is_leaf == 1 {
        leaf_depths.push(depth);
    }
    let mut prev: Option<(u32, u32)> = None;
    for i in 0..count as u64 {
        let p = at + 4 + i * item;
        let sc = r.u32(p);
        let sb = r.u32(p + 4);
        let ec = r.u32(p + 8);
        let eb = r.u32(p + 12);
        if cmp_pos(sc, sb, ec, eb).is_gt() {
            return Err(format!(
                "{}: node at {} item {}: start ({},{}) after end ({},{})",
                what, at, i, sc, sb, ec, eb
            ));
        }
        if let Some((pc, pb, pec, peb)) = parent {
            if cmp_pos(sc, sb, pc, pb).is_lt() || cmp_pos(ec, eb, pec, peb).is_gt() {
                return Err(format!(
                    "{}: child span ({},{})-({},{}) of node at {} is not contained in its parent's span ({},{})-({},{})",
                    what, sc, sb, ec, eb, at, pc, pb, pec, peb
                ));
            }
        }
        if let Some((c, b)) = prev {
            if cmp_pos(sc, sb, c, b).is_lt() {
                return Err(format!("{}: node at {}: items not ordered by start", what, at));
            }
        }
        prev = Some((sc, sb));
        if is_leaf == 1 {
            ix.leaves.push(Leaf {
                start_chrom: sc,
                start_base: sb,
                end_chrom: ec,
                end_base: eb,
                offset: r.u64(p + 16),
                size: r.u64(p + 24),
            });
        } else {
            let child = r.u64(p + 16);
            walk_node(r, child, Some((sc, sb, ec, eb)), depth + 1, ix, leaf_depths, what)?;
        }
    }
    Ok(())
}

fn block_bytes(r: &Rd, l: &Leaf, buf_size: u32, max_inflated: &mut usize, what: &str) -> Result<Vec<u8>, String> {
    let raw = &r.d[l.offset as usize..(l.offset + l.size) as usize];
    if buf_size == 0 {
        return Ok(raw.to_vec());
    }
    let out = miniz_oxide::inflate::decompress_to_vec_zlib_with_limit(raw, (buf_size as usize).max(1) * 4 + 1024)
        .map_err(|e| format!("{}: block at {} (+{}) is not a valid zlib stream: {:?}", what, l.offset, l.size, e.status))?;
    if out.len() > buf_size as usize {
        return Err(format!(
            "{}: block at {} inflates to {} bytes, more than uncompressBufSize {}",
            what,
            l.offset,
            out.len(),
            buf_size
        ));
    }
    *max_inflated = (*max_inflated).max(out.len());
    Ok(out)
}

/// decode a file some other tool wrote: the end signature is optional (old UCSC writers omit it)
pub fn decode_lenient(bytes: &[u8]) -> Result<Decoded, String> {
    decode_with(bytes, false)
}

/// decode with every rule on (what a current, version-4 writer is held to)
pub fn decode(bytes: &[u8]) -> Result<Decoded, String> {
    decode_with(bytes, true)
}

pub fn decode_with(bytes: &[u8], require_end_magic: bool) -> Result<Decoded, String> {
    if bytes.len() < 64 {
        return Err(format!("file too short for a header: {} bytes", bytes.len()));
    }
    let m_le = u32::from_le_bytes([bytes[0], bytes[1], bytes[2], bytes[3]]);
    let m_be = u32::from_be_bytes([bytes[0], bytes[1], bytes[2], bytes[3]]);
    let (is_bigwig, be) = if m_le == BIGWIG_MAGIC {
        (true, false)
    } else if m_be == BIGWIG_MAGIC {
        (true, true)
    } else if m_le == BIGBED_MAGIC {
        (false, false)
    } else if m_be == BIGBED_MAGIC {
        (false, true)
    } else {
        return Err(format!("bad magic {:#x}", m_le));
    };
    let magic = if is_bigwig { BIGWIG_MAGIC } else { BIGBED_MAGIC };
    let r = Rd { d: bytes, be, strict: require_end_magic };
    let len = bytes.len() as u64;
    let mut d = Decoded {
        is_bigwig,
        big_endian: be,
        version: r.u16(4),
        zoom_levels: r.u16(6),
        chrom_tree_offset: r.u64(8),
        full_data_offset: r.u64(16),
        full_index_offset: r.u64(24),
        field_count: r.u16(32),
        defined_field_count: r.u16(34),
        autosql_offset: r.u64(36),
        total_summary_offset: r.u64(44),
        uncompress_buf_size: r.u32(52),
        reserved: r.u64(56),
        autosql: None,
        summary: None,
        data_count: 0,
        chroms: vec![],
        chrom_key_size: 0,
        chrom_block_size: 0,
        chrom_tree_levels: 0,
        main_index: IndexInfo::default(),
        bw_blocks: vec![],
        bb_blocks: vec![],
        zooms: vec![],
        max_inflated: 0,
        has_end_magic: false,
        data_count_width: 8,
    };
    if d.version == 0 || d.version > 4 {
        return Err(format!("header: version {}", d.version));
    }
    // trailing magic
    d.has_end_magic = len >= 68 && r.u32(len - 4) == magic;
    if require_end_magic && !d.has_end_magic {
        return Err("trailing magic number missing at the end of the file".into());
    }
    // offsets inside the file and mutually consistent
    let zoom_dir_end = 64 + 24 * d.zoom_levels as u64;
    r.need(64, 24 * d.zoom_levels as u64, "zoom directory")?;
    let mut named = vec![
        ("chromosome tree", d.chrom_tree_offset),
        ("full data", d.full_data_offset),
        ("full index", d.full_index_offset),
    ];
    if d.total_summary_offset != 0 {
        named.push(("total summary", d.total_summary_offset));
    }
    if d.autosql_offset != 0 {
        named.push(("autoSql", d.autosql_offset));
    }
    for (n, o) in &named {
        if *o < zoom_dir_end {
            return Err(format!(
                "header: {} offset {} lies inside the header / zoom directory (ends at {})",
                n, o, zoom_dir_end
            ));
        }
        if *o >= len {
            return Err(format!("header: {} offset {} is beyond the file", n, o));
        }
    }
    if d.full_data_offset + 4 > d.full_index_offset {
        return Err(format!(
            "header: fullDataOffset {} (+4) is not before fullIndexOffset {}",
            d.full_data_offset, d.full_index_offset
        ));
    }
    // bigtools always writes a total summary (strict mode); a foreign file may leave it out
    if require_end_magic && d.version >= 2 && d.total_summary_offset == 0 {
        return Err("header: version >= 2 but no total summary".into());
    }
    if d.reserved != 0 {
        // version 4 may carry an extension offset; bigtools writes 0. Only check that it is inside.
        if d.reserved >= len {
            return Err(format!("header: extension offset {} beyond the file", d.reserved));
        }
    }
    if is_bigwig {
        if d.field_count != 0 || d.defined_field_count != 0 || d.autosql_offset != 0 {
            return Err(format!(
                "bigWig header: fieldCount {}, definedFieldCount {}, autoSqlOffset {} should all be 0",
                d.field_count, d.defined_field_count, d.autosql_offset
            ));
        }
    } else {
        if d.defined_field_count > d.field_count {
            return Err(format!(
                "bigBed header: definedFieldCount {} > fieldCount {}",
                d.defined_field_count, d.field_count
            ));
        }
        if d.autosql_offset != 0 {
            let a = d.autosql_offset as usize;
            match bytes[a..].iter().position(|b| *b == 0) {
                Some(n) => d.autosql = Some(bytes[a..a + n].to_vec()),
                None => return Err("autoSql text is not NUL-terminated".into()),
            }
        }
    }
    if d.total_summary_offset != 0 {
        let t = d.total_summary_offset;
        r.need(t, 40, "total summary")?;
        d.summary = Some((r.u64(t), r.f64(t + 8), r.f64(t + 16), r.f64(t + 24), r.f64(t + 32)));
    }
    r.need(d.full_data_offset, 8, "data count")?;
    d.data_count = r.u64(d.full_data_offset);

    // chromosome tree
    let c = d.chrom_tree_offset;
    r.need(c, 32, "chromosome tree header")?;
    if r.u32(c) != CHROM_TREE_MAGIC {
        return Err(format!("chromosome tree: bad magic {:#x}", r.u32(c)));
    }
    d.chrom_block_size = r.u32(c + 4);
    d.chrom_key_size = r.u32(c + 8);
    let val_size = r.u32(c + 12);
    let item_count = r.u64(c + 16);
    let reserved = r.u64(c + 24);
    if val_size != 8 {
        return Err(format!("chromosome tree: valSize {} != 8", val_size));
    }
    if d.chrom_key_size == 0 || d.chrom_block_size == 0 {
        return Err("chromosome tree: zero key size or block size".into());
    }
    if reserved != 0 {
        return Err("chromosome tree: reserved != 0".into());
    }
    let mut raw: Vec<(String, u32, u32, Vec<u8>)> = vec![];
    let mut levels = 0;
    read_chrom_node(&r, c + 32, d.chrom_key_size, d.chrom_block_size, 1, &mut raw, &mut levels)?;
    d.chrom_tree_levels = levels;
    if raw.len() as u64 != item_count {
        return Err(format!(
            "chromosome tree: itemCount {} but {} leaf items",
            item_count,
            raw.len()
        ));
    }
    {
        let mut ids: Vec<u32> = raw.iter().map(|x| x.1).collect();
        ids.sort();
        for (i, id) in ids.iter().enumerate() {
            if *id != i as u32 {
                return Err(format!("chromosome tree: ids are not exactly 0..{}: {:?}", raw.len(), ids));
            }
        }
        let mut names: Vec<&String> = raw.iter().map(|x| &x.0).collect();
        names.sort();
        if names.windows(2).any(|w| w[0] == w[1]) {
            return Err("chromosome tree: duplicate chromosome name".into());
        }
    }
    d.chroms = raw.iter().map(|x| (x.0.clone(), x.1, x.2)).collect();

    // zoom directory
    let mut prev_red = 0u32;
    let mut zoom_hdrs = vec![];
    for i in 0..d.zoom_levels as u64 {
        let p = 64 + 24 * i;
        let red = r.u32(p);
        let resv = r.u32(p + 4);
        let doff = r.u64(p + 8);
        let ioff = r.u64(p + 16);
        if resv != 0 {
            return Err(format!("zoom directory entry {}: reserved word = {}", i, resv));
        }
        if red == 0 {
            return Err(format!("zoom directory entry {}: reduction level 0", i));
        }
        if i > 0 && red <= prev_red {
            return Err(format!(
                "zoom directory: reduction levels not strictly increasing ({} after {})",
                red, prev_red
            ));
        }
        prev_red = red;
        if doff < zoom_dir_end || ioff < doff || ioff >= len {
            return Err(format!(
                "zoom directory entry {}: offsets data={} index={} inconsistent (file {} bytes)",
                i, doff, ioff, len
            ));
        }
        zoom_hdrs.push((red, resv, doff, ioff));
    }

    // main index + blocks
    d.main_index = read_index(&r, d.full_index_offset, "main index")?;
    let name_of = |id: u32| -> Result<(&String, u32), String> {
        d.chroms
            .iter()
            .find(|c| c.1 == id)
            .map(|c| (&c.0, c.2))
            .ok_or_else(|| format!("block refers to chromosome id {} which is not in the chromosome tree", id))
    };
    let ips = d.main_index.items_per_slot;
    let mut max_inflated = 0usize;
    for l in &d.main_index.leaves {
        if l.start_chrom != l.end_chrom {
            return Err(format!(
                "main index: leaf spans chromosomes {}..{} (a data block holds one chromosome)",
                l.start_chrom, l.end_chrom
            ));
        }
        if l.offset < d.full_data_offset + 4 {
            return Err(format!("main index: block at {} lies before the data area", l.offset));
        }
        if l.offset < d.full_data_offset + 8 {
            // a 4-byte count field (UCSC bigWig layout)
            d.data_count_width = 4;
            d.data_count = r.u32(d.full_data_offset) as u64;
        }
        let (_, csize) = name_of(l.start_chrom)?;
        let _ = csize;
        let b = block_bytes(&r, l, d.uncompress_buf_size, &mut max_inflated, "main data")?;
        let rb = Rd { d: &b, be, strict: false };
        if is_bigwig {
            if b.len() < 24 {
                return Err(format!("bigWig block at {}: shorter than its 24-byte header", l.offset));
            }
            let mut blk = BwBlock {
                chrom: rb.u32(0),
                start: rb.u32(4),
                end: rb.u32(8),
                step: rb.u32(12),
                span: rb.u32(16),
                kind: rb.u8(20),
                items: vec![],
            };
            let resv = rb.u8(21);
            let n = rb.u16(22) as usize;
            if resv != 0 {
                return Err(format!("bigWig block at {}: reserved byte {}", l.offset, resv));
            }
            if blk.chrom != l.start_chrom {
                return Err(format!(
                    "bigWig block at {}: chromosome id {} but its index leaf says {}",
                    l.offset, blk.chrom, l.start_chrom
                ));
            }
            let item = match blk.kind {
                1 => 12,
                2 => 8,
                3 => 4,
                k => return Err(format!("bigWig block at {}: unknown section type {}", l.offset, k)),
            };
            if b.len() != 24 + item * n {
                return Err(format!(
                    "bigWig block at {}: {} bytes for {} items of type {} (expected {})",
                    l.offset,
                    b.len(),
                    n,
                    blk.kind,
                    24 + item * n
                ));
            }
            if n == 0 {
                return Err(format!("bigWig block at {}: no items", l.offset));
            }
            if n as u64 > ips as u64 {
                return Err(format!(
                    "bigWig block at {}: {} items exceed itemsPerSlot {}",
                    l.offset, n, ips
                ));
            }
            for i in 0..n as u64 {
                let it = match blk.kind {
                    1 => (rb.u32(24 + 12 * i), rb.u32(28 + 12 * i), rb.f32(32 + 12 * i)),
                    2 => {
                        let s = rb.u32(24 + 8 * i);
                        (s, s + blk.span, rb.f32(28 + 8 * i))
                    }
                    _ => {
                        let s = blk.start + blk.step * i as u32;
                        (s, s + blk.span, rb.f32(24 + 4 * i))
                    }
                };
                blk.items.push(it);
            }
            let mut prev_end = 0u32;
            for (k, it) in blk.items.iter().enumerate() {
                if it.0 > it.1 {
                    return Err(format!("bigWig block at {}: item {} has start > end", l.offset, k));
                }
                if k > 0 && it.0 < prev_end {
                    return Err(format!("bigWig block at {}: items overlap / unsorted at {}", l.offset, k));
                }
                prev_end = it.1;
                if it.0 < blk.start || it.1 > blk.end {
                    return Err(format!(
                        "bigWig block at {}: item {} ({},{}) outside the section span ({},{})",
                        l.offset, k, it.0, it.1, blk.start, blk.end
                    ));
                }
            }
            if blk.start < l.start_base || blk.end > l.end_base {
                return Err(format!(
                    "bigWig block at {}: section span ({},{}) outside its index leaf ({},{})",
                    l.offset, blk.start, blk.end, l.start_base, l.end_base
                ));
            }
            d.bw_blocks.push(blk);
        } else {
            let mut items = vec![];
            let mut p = 0usize;
            while p < b.len() {
                if p + 12 > b.len() {
                    return Err(format!("bigBed block at {}: truncated entry header", l.offset));
                }
                let chrom = rb.u32(p as u64);
                let s = rb.u32(p as u64 + 4);
                let e = rb.u32(p as u64 + 8);
                p += 12;
                let nul = match b[p..].iter().position(|x| *x == 0) {
                    Some(n) => n,
                    None => return Err(format!("bigBed block at {}: entry without NUL terminator", l.offset)),
                };
                let rest = b[p..p + nul].to_vec();
                p += nul + 1;
                if chrom != l.start_chrom {
                    return Err(format!(
                        "bigBed block at {}: entry of chromosome {} in a block indexed for {}",
                        l.offset, chrom, l.start_chrom
                    ));
                }
                if s > e {
                    return Err(format!("bigBed block at {}: entry start {} > end {}", l.offset, s, e));
                }
                if s < l.start_base || e > l.end_base {
                    return Err(format!(
                        "bigBed block at {}: entry ({},{}) is outside its index leaf span ({},{})",
                        l.offset, s, e, l.start_base, l.end_base
                    ));
                }
                if let Some(last) = items.last() {
                    let last: &BbItem = last;
                    if s < last.start {
                        return Err(format!("bigBed block at {}: entries not sorted by start", l.offset));
                    }
                }
                items.push(BbItem {
                    chrom,
                    start: s,
                    end: e,
                    rest,
                });
            }
            if items.is_empty() {
                return Err(format!("bigBed block at {}: empty", l.offset));
            }
            if items.len() as u64 > ips as u64 {
                return Err(format!(
                    "bigBed block at {}: {} entries exceed itemsPerSlot {}",
                    l.offset,
                    items.len(),
                    ips
                ));
            }
            d.bb_blocks.push(items);
        }
    }
    {
        let ix = &d.main_index;
        let n_records: u64 = if is_bigwig {
            d.bw_blocks.iter().map(|b| b.items.len() as u64).sum()
        } else {
            d.bb_blocks.iter().map(|b| b.len() as u64).sum()
        };
        if ix.item_count != ix.leaves.len() as u64 && ix.item_count != n_records {
            return Err(format!(
                "main index: header itemCount = {} is neither the number of leaf items ({}) nor of records ({})",
                ix.item_count,
                ix.leaves.len(),
                n_records
            ));
        }
    }
    // count field
    let expect_count = if is_bigwig {
        d.bw_blocks.len() as u64
    } else {
        d.bb_blocks.iter().map(|b| b.len() as u64).sum()
    };
    if d.data_count != expect_count {
        return Err(format!(
            "data count field = {} but the file holds {} {}",
            d.data_count,
            expect_count,
            if is_bigwig { "sections" } else { "entries" }
        ));
    }

    // zoom levels
    for (zi, (red, resv, doff, ioff)) in zoom_hdrs.iter().enumerate() {
        let what = format!("zoom level {} (reduction {}) index", zi, red);
        let ix = read_index(&r, *ioff, &what)?;
        let mut blocks = vec![];
        let mut prev: Option<(u32, u32)> = None;
        for l in &ix.leaves {
            if l.offset < *doff {
                return Err(format!("{}: block at {} lies before the level's data offset {}", what, l.offset, doff));
            }
            let b = block_bytes(&r, l, d.uncompress_buf_size, &mut max_inflated, &what)?;
            if b.len() % 32 != 0 || b.is_empty() {
                return Err(format!("{}: block at {} has {} bytes (not a multiple of 32)", what, l.offset, b.len()));
            }
            let rb = Rd { d: &b, be, strict: false };
            let n = b.len() / 32;
            if n as u64 > ix.items_per_slot as u64 {
                return Err(format!("{}: block at {} holds {} records, itemsPerSlot {}", what, l.offset, n, ix.items_per_slot));
            }
            let mut recs = vec![];
            for i in 0..n as u64 {
                let p = 32 * i;
                let z = ZoomRec {
                    chrom: rb.u32(p),
                    start: rb.u32(p + 4),
                    end: rb.u32(p + 8),
                    valid: rb.u32(p + 12),
                    min: rb.f32(p + 16),
                    max: rb.f32(p + 20),
                    sum: rb.f32(p + 24),
                    sumsq: rb.f32(p + 28),
                };
                name_of(z.chrom)?;
                if z.chrom < l.start_chrom || z.chrom > l.end_chrom {
                    return Err(format!("{}: record of chromosome {} outside leaf chromosomes {}..{}", what, z.chrom, l.start_chrom, l.end_chrom));
                }
                if cmp_pos(z.chrom, z.start, l.start_chrom, l.start_base).is_lt()
                    || cmp_pos(z.chrom, z.end, l.end_chrom, l.end_base).is_gt()
                {
                    return Err(format!(
                        "{}: record ({},{},{}) outside its leaf span ({},{})-({},{})",
                        what, z.chrom, z.start, z.end, l.start_chrom, l.start_base, l.end_chrom, l.end_base
                    ));
                }
                if z.start > z.end {
                    return Err(format!("{}: record start > end", what));
                }
                if let Some((pc, ps)) = prev {
                    if cmp_pos(z.chrom, z.start, pc, ps).is_lt() {
                        return Err(format!("{}: records out of order", what));
                    }
                }
                prev = Some((z.chrom, z.start));
                recs.push(z);
            }
            blocks.push(recs);
        }
        {
            let n_records: u64 = blocks.iter().map(|b: &Vec<ZoomRec>| b.len() as u64).sum();
            if ix.item_count != ix.leaves.len() as u64 && ix.item_count != n_records {
                return Err(format!(
                    "{}: header itemCount = {} is neither the number of leaf items ({}) nor of records ({})",
                    what,
                    ix.item_count,
                    ix.leaves.len(),
                    n_records
                ));
            }
        }
        d.zooms.push(ZoomLevel {
            reduction: *red,
            reserved: *resv,
            data_offset: *doff,
            index_offset: *ioff,
            index: ix,
            blocks,
        });
    }
    d.max_inflated = max_inflated;
    Ok(d)
}

/// linear scan: leaves whose span intersects (chrom, [s,e]) inclusively / strictly
pub fn scan_leaves(ix: &IndexInfo, chrom: u32, s: u32, e: u32) -> (Vec<usize>, Vec<usize>) {
    let mut must = vec![];
    let mut may = vec![];
    for (i, l) in ix.leaves.iter().enumerate() {
        // strict: positive-length overlap between [s,e) and the leaf span
        let strict = cmp_pos(chrom, s, l.end_chrom, l.end_base).is_lt() && cmp_pos(chrom, e, l.start_chrom, l.start_base).is_gt();
        let incl = cmp_pos(chrom, s, l.end_chrom, l.end_base).is_le() && cmp_pos(chrom, e, l.start_chrom, l.start_base).is_ge();
        if strict && e > s {
            must.push(i);
        }
        if incl {
            may.push(i);
        }
    }
    (must, may)
}
