pub mod decode;
pub mod encode;
