pub mod decode;
