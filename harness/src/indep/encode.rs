//! Independent BBI encoder with layout knobs (std + miniz_oxide only; shares no code with
//! bigtools). Produces well-formed files in layouts bigtools' own writer never emits.
use serde::{Deserialize, Serialize};

use crate::model::f32_exact;

#[derive(Serialize, Deserialize, Clone, Copy, Debug, PartialEq)]
pub enum Placement {
    /// root, then level by level (what most writers do)
    LevelOrder,
    /// root first (the format fixes that), the remaining nodes in reverse level order
    Reverse,
    /// root, then all leaf nodes, then the inner nodes
    LeavesFirst,
    /// root, then a seeded shuffle of the rest
    Shuffled(u32),
}

#[derive(Serialize, Deserialize, Clone, Debug)]
pub struct EncParams {
    pub big_endian: bool,
    pub compress: bool,
    /// 1 = no total summary (offset 0); 2..4 with summary
    pub version: u16,
    /// chromosome B+ tree block size (>= 2): small values give multi-level trees
    pub chrom_block: u32,
    /// R-tree fan-out (>= 2)
    pub rtree_block: u32,
    pub items_per_slot: u32,
    pub placement: Placement,
    /// padding bytes between index nodes
    pub pad: u8,
    /// put an inner (non-leaf, non-root) node at the very end of the index, and the main index at the end of the file
    pub nonleaf_last: bool,
    pub zooms: Vec<u32>,
    /// UCSC bigWig layout: the section count at fullDataOffset is 4 bytes wide
    pub count_u32: bool,
    pub end_magic: bool,
    /// UCSC layout: a u32 record count in front of each zoom level's data
    pub zoom_count_prefix: bool,
    /// version >= 2 only: leave the total summary out (totalSummaryOffset = 0)
    #[serde(default)]
    pub no_summary: bool,
    /// leaves at different depths: the last leaf node hangs one level higher than the others
    #[serde(default)]
    pub ragged: bool,
}

#[derive(Serialize, Deserialize, Clone, Debug, PartialEq)]
pub struct Item {
    pub s: u32,
    pub e: u32,
    #[serde(with = "f32_exact")]
    pub v: f32,
}

#[derive(Serialize, Deserialize, Clone, Debug)]
pub enum WigBlock {
    /// type 1
    Bed(Vec<Item>),
    /// type 2: (start, value) with a common span
    Var { span: u32, items: Vec<(u32, f32)> },
    /// type 3
    Fixed { start: u32, step: u32, span: u32, vals: Vec<f32> },
}

impl WigBlock {
    pub fn items(&self) -> Vec<Item> {
        match self {
            WigBlock::Bed(v) => v.clone(),
            WigBlock::Var { span, items } => items.iter().map(|(s, v)| Item { s: *s, e: s + span, v: *v }).collect(),
            WigBlock::Fixed { start, step, span, vals } => vals
                .iter()
                .enumerate()
                .map(|(i, v)| Item { s: start + step * i as u32, e: start + step * i as u32 + span, v: *v })
                .collect(),
        }
    }
    pub fn kind(&self) -> u8 {
        match self {
            WigBlock::Bed(_) => 1,
            WigBlock::Var { .. } => 2,
            WigBlock::Fixed { .. } => 3,
        }
    }
}

#[derive(Serialize, Deserialize, Clone, Debug)]
pub struct EncChrom {
    pub name: String,
    pub size: u32,
    pub id: u32,
}

#[derive(Clone, Debug, PartialEq)]
pub struct EncZoomRec {
    pub chrom: u32,
    pub start: u32,
    pub end: u32,
    pub valid: u32,
    pub min: f32,
    pub max: f32,
    pub sum: f32,
    pub sumsq: f32,
}

struct W {
    be: bool,
    d: Vec<u8>,
}
impl W {
    fn u8(&mut self, v: u8) {
        self.d.push(v)
    }
    fn u16(&mut self, v: u16) {
        self.d.extend_from_slice(&if self.be { v.to_be_bytes() } else { v.to_le_bytes() })
    }
    fn u32(&mut self, v: u32) {
        self.d.extend_from_slice(&if self.be { v.to_be_bytes() } else { v.to_le_bytes() })
    }
    fn u64(&mut self, v: u64) {
        self.d.extend_from_slice(&if self.be { v.to_be_bytes() } else { v.to_le_bytes() })
    }
    fn f32(&mut self, v: f32) {
        self.u32(v.to_bits())
    }
    fn f64(&mut self, v: f64) {
        self.u64(v.to_bits())
    }
    fn put_u64_at(&mut self, at: usize, v: u64) {
        let b = if self.be { v.to_be_bytes() } else { v.to_le_bytes() };
        self.d[at..at + 8].copy_from_slice(&b);
    }
    fn put_u32_at(&mut self, at: usize, v: u32) {
        let b = if self.be { v.to_be_bytes() } else { v.to_le_bytes() };
        self.d[at..at + 4].copy_from_slice(&b);
    }
    fn put_u16_at(&mut self, at: usize, v: u16) {
        let b = if self.be { v.to_be_bytes() } else { v.to_le_bytes() };
        self.d[at..at + 2].copy_from_slice(&b);
    }
    fn pos(&self) -> u64 {
        self.d.len() as u64
    }
}

#[derive(Clone, Debug)]
struct LeafItem {
    sc: u32,
    sb: u32,
    ec: u32,
    eb: u32,
    off: u64,
    size: u64,
}

#[derive(Clone, Debug)]
struct Node {
    leaf: bool,
    /// for leaf nodes: indices into the leaf item list; for inner nodes: indices of child nodes
    children: Vec<usize>,
    sc: u32,
    sb: u32,
    ec: u32,
    eb: u32,
    level: usize,
}

fn max_end(a: (u32, u32), b: (u32, u32)) -> (u32, u32) {
    if b > a {
        b
    } else {
        a
    }
}

/// serialise an R-tree over `items` at the current position; returns the index offset
fn write_rtree(w: &mut W, items: &[LeafItem], p: &EncParams, end_of_data: u64) -> u64 {
    let b = p.rtree_block.max(2) as usize;
    // build nodes bottom-up
    let mut nodes: Vec<Node> = vec![];
    let mut level_nodes: Vec<usize> = vec![];
    for (k, chunk) in items.chunks(b).enumerate() {
        let first = &chunk[0];
        let mut end = (first.ec, first.eb);
        for it in chunk {
            end = max_end(end, (it.ec, it.eb));
        }
        nodes.push(Node {
            leaf: true,
            children: (k * b..k * b + chunk.len()).collect(),
            sc: first.sc,
            sb: first.sb,
            ec: end.0,
            eb: end.1,
            level: 0,
        });
        level_nodes.push(nodes.len() - 1);
    }
    let mut level = 0;
    while level_nodes.len() > 1 {
        level += 1;
        let mut next = vec![];
        // ragged: keep the last (rightmost) leaf node out of the first grouping and hand it to the level above
        let promoted = if p.ragged && level == 1 && level_nodes.len() >= 3 { level_nodes.pop() } else { None };
        for chunk in level_nodes.chunks(b) {
            let first = &nodes[chunk[0]];
            let (sc, sb) = (first.sc, first.sb);
            let mut end = (first.ec, first.eb);
            for c in chunk {
                end = max_end(end, (nodes[*c].ec, nodes[*c].eb));
            }
            nodes.push(Node {
                leaf: false,
                children: chunk.to_vec(),
                sc,
                sb,
                ec: end.0,
                eb: end.1,
                level,
            });
            next.push(nodes.len() - 1);
        }
        if let Some(leaf) = promoted {
            next.push(leaf);
        }
        level_nodes = next;
    }
    let root = level_nodes[0];
    // placement order: root first
    let mut order: Vec<usize> = (0..nodes.len()).filter(|i| *i != root).collect();
    match p.placement {
        Placement::LevelOrder => order.sort_by(|a, b| nodes[*b].level.cmp(&nodes[*a].level).then(a.cmp(b))),
        Placement::Reverse => order.sort_by(|a, b| nodes[*a].level.cmp(&nodes[*b].level).then(b.cmp(a))),
        Placement::LeavesFirst => order.sort_by(|a, b| nodes[*a].level.cmp(&nodes[*b].level).then(a.cmp(b))),
        Placement::Shuffled(seed) => {
            let mut x = seed as u64 | 1;
            for i in (1..order.len()).rev() {
                x ^= x << 13;
                x ^= x >> 7;
                x ^= x << 17;
                let j = (x % (i as u64 + 1)) as usize;
                order.swap(i, j);
            }
        }
    }
    if p.nonleaf_last {
        if let Some(pos) = order.iter().position(|i| !nodes[*i].leaf) {
            let n = order.remove(pos);
            order.push(n);
        }
    }
    let mut all = vec![root];
    all.extend(order);
    // header
    let index_offset = w.pos();
    w.u32(0x2468_ACE0);
    w.u32(p.rtree_block.max(2));
    w.u64(items.len() as u64);
    let r = &nodes[root];
    w.u32(r.sc);
    w.u32(r.sb);
    w.u32(r.ec);
    w.u32(r.eb);
    w.u64(end_of_data);
    w.u32(p.items_per_slot);
    w.u32(0);
    // offsets
    let mut offs = vec![0u64; nodes.len()];
    let mut at = w.pos();
    for (k, n) in all.iter().enumerate() {
        if k > 0 {
            at += p.pad as u64;
        }
        offs[*n] = at;
        at += 4 + nodes[*n].children.len() as u64 * if nodes[*n].leaf { 32 } else { 24 };
    }
    for (k, n) in all.iter().enumerate() {
        if k > 0 {
            for _ in 0..p.pad {
                w.u8(0xEE);
            }
        }
        debug_assert_eq!(w.pos(), offs[*n]);
        let node = &nodes[*n];
        w.u8(if node.leaf { 1 } else { 0 });
        w.u8(0);
        w.u16(node.children.len() as u16);
        for c in &node.children {
            if node.leaf {
                let it = &items[*c];
                w.u32(it.sc);
                w.u32(it.sb);
                w.u32(it.ec);
                w.u32(it.eb);
                w.u64(it.off);
                w.u64(it.size);
            } else {
                let ch = &nodes[*c];
                w.u32(ch.sc);
                w.u32(ch.sb);
                w.u32(ch.ec);
                w.u32(ch.eb);
                w.u64(offs[*c]);
            }
        }
    }
    index_offset
}

fn write_chrom_tree(w: &mut W, chroms: &[EncChrom], block: u32) {
    let mut sorted: Vec<&EncChrom> = chroms.iter().collect();
    sorted.sort_by(|a, b| a.name.as_bytes().cmp(b.name.as_bytes()));
    let key = sorted.iter().map(|c| c.name.len()).max().unwrap_or(1) as u32;
    let b = block.max(2) as usize;
    w.u32(0x78CA_8C91);
    w.u32(b as u32);
    w.u32(key);
    w.u32(8);
    w.u64(sorted.len() as u64);
    w.u64(0);
    // levels: leaf nodes of <= b items, inner nodes of <= b children; written root first, depth first
    #[derive(Clone)]
    struct N {
        leaf: bool,
        items: Vec<usize>, // leaf: chrom indices; inner: child node ids
        first_key: usize,  // chrom index of the smallest key below
    }
    let mut nodes: Vec<N> = vec![];
    let mut lvl: Vec<usize> = vec![];
    let idx: Vec<usize> = (0..sorted.len()).collect();
    for chunk in idx.chunks(b) {
        nodes.push(N { leaf: true, items: chunk.to_vec(), first_key: chunk[0] });
        lvl.push(nodes.len() - 1);
    }
    while lvl.len() > 1 {
        let mut next = vec![];
        for chunk in lvl.chunks(b) {
            nodes.push(N { leaf: false, items: chunk.to_vec(), first_key: nodes[chunk[0]].first_key });
            next.push(nodes.len() - 1);
        }
        lvl = next;
    }
    let root = lvl[0];
    let item = key as u64 + 8;
    // depth-first layout with back-patched child offsets
    fn emit(w: &mut W, nodes: &[N], n: usize, sorted: &[&EncChrom], key: u32, item: u64) {
        let node = &nodes[n];
        w.u8(if node.leaf { 1 } else { 0 });
        w.u8(0);
        w.u16(node.items.len() as u16);
        let items_at = w.pos();
        for it in &node.items {
            let k = if node.leaf { *it } else { nodes[*it].first_key };
            let mut kb = sorted[k].name.as_bytes().to_vec();
            kb.resize(key as usize, 0);
            w.d.extend_from_slice(&kb);
            if node.leaf {
                w.u32(sorted[*it].id);
                w.u32(sorted[*it].size);
            } else {
                w.u64(0); // patched below
            }
        }
        if !node.leaf {
            for (i, child) in node.items.iter().enumerate() {
                let at = w.pos();
                let slot = items_at + i as u64 * item + key as u64;
                w.put_u64_at(slot as usize, at);
                emit(w, nodes, *child, sorted, key, item);
            }
        }
    }
    emit(w, &nodes, root, &sorted, key, item);
}

fn deflate(raw: &[u8], compress: bool) -> Vec<u8> {
    if compress {
        miniz_oxide::deflate::compress_to_vec_zlib(raw, 6)
    } else {
        raw.to_vec()
    }
}

pub struct Encoded {
    pub bytes: Vec<u8>,
    /// zoom records per level as encoded
    pub zooms: Vec<(u32, Vec<EncZoomRec>)>,
    pub summary: Option<(u64, f64, f64, f64, f64)>,
    pub data_count: u64,
    pub index_levels: usize,
}

fn zoom_records(res: u32, per_chrom: &[(u32, Vec<(u32, u32, f64)>)]) -> Vec<EncZoomRec> {
    // fixed tiling from 0: one record per tile that holds data
    let mut out = vec![];
    for (id, runs) in per_chrom {
        let mut cur: Option<(u32, u64, f64, f64, f64, f64)> = None; // tile, valid, min, max, sum, sumsq
        let flush = |c: &mut Option<(u32, u64, f64, f64, f64, f64)>, out: &mut Vec<EncZoomRec>, id: u32| {
            if let Some((t, n, mn, mx, s, ss)) = c.take() {
                out.push(EncZoomRec {
                    chrom: id,
                    start: t * res,
                    end: t.saturating_mul(res).saturating_add(res),
                    valid: n as u32,
                    min: mn as f32,
                    max: mx as f32,
                    sum: s as f32,
                    sumsq: ss as f32,
                });
            }
        };
        for (s, e, v) in runs {
            let mut p = *s;
            while p < *e {
                let t = p / res;
                let te = (t as u64 * res as u64 + res as u64).min(*e as u64) as u32;
                let n = (te - p) as u64;
                match &mut cur {
                    Some(c) if c.0 == t => {
                        c.1 += n;
                        c.2 = c.2.min(*v);
                        c.3 = c.3.max(*v);
                        c.4 += n as f64 * v;
                        c.5 += n as f64 * v * v;
                    }
                    _ => {
                        flush(&mut cur, &mut out, *id);
                        cur = Some((t, n, *v, *v, n as f64 * v, n as f64 * v * v));
                    }
                }
                p = te;
            }
        }
        flush(&mut cur, &mut out, *id);
    }
    out
}

fn header_skeleton(be: bool, magic: u32, version: u16, nzoom: u16, field_count: u16, defined: u16) -> W {
    let mut w = W { be, d: vec![] };
    w.u32(magic);
    w.u16(version);
    w.u16(nzoom);
    w.u64(0); // chrom tree
    w.u64(0); // data
    w.u64(0); // index
    w.u16(field_count);
    w.u16(defined);
    w.u64(0); // autosql
    w.u64(0); // summary
    w.u32(0); // buf size
    w.u64(0); // reserved
    for _ in 0..nzoom {
        w.u32(0);
        w.u32(0);
        w.u64(0);
        w.u64(0);
    }
    w
}

#[allow(clippy::too_many_arguments)]
fn finish(
    mut w: W,
    p: &EncParams,
    magic: u32,
    chroms: &[EncChrom],
    raw_blocks: Vec<(u32, u32, u32, Vec<u8>)>, // chrom, start, end(max), raw bytes
    data_count: u64,
    signal: &[(u32, Vec<(u32, u32, f64)>)],
    stats: (u64, f64, f64, f64, f64),
    autosql: Option<&[u8]>,
) -> Encoded {
    // autosql
    if let Some(a) = autosql {
        let at = w.pos();
        w.put_u64_at(36, at);
        w.d.extend_from_slice(a);
        w.u8(0);
    }
    // summary
    let summary = if p.version >= 2 && !p.no_summary {
        let at = w.pos();
        w.put_u64_at(44, at);
        w.u64(stats.0);
        w.f64(stats.1);
        w.f64(stats.2);
        w.f64(stats.3);
        w.f64(stats.4);
        Some(stats)
    } else {
        None
    };
    // chromosome tree (UCSC puts it before the data)
    let ct = w.pos();
    w.put_u64_at(8, ct);
    write_chrom_tree(&mut w, chroms, p.chrom_block);
    // data
    let fdo = w.pos();
    w.put_u64_at(16, fdo);
    // bigWig: the section count is a 32-bit field (UCSC layout); bigtools' own little-endian
    // layout spends eight bytes on it (low half first, so a 32-bit read still sees it). bigBed: 64 bits.
    let is_bigwig = magic == 0x888F_FC26;
    if is_bigwig && (p.count_u32 || p.big_endian) {
        w.u32(data_count as u32);
    } else {
        w.u64(data_count);
    }
    let mut max_raw = 0usize;
    let mut leaves: Vec<LeafItem> = vec![];
    for (c, s, e, raw) in &raw_blocks {
        max_raw = max_raw.max(raw.len());
        let z = deflate(raw, p.compress);
        let off = w.pos();
        w.d.extend_from_slice(&z);
        leaves.push(LeafItem { sc: *c, sb: *s, ec: *c, eb: *e, off, size: z.len() as u64 });
    }
    let end_of_data = w.pos();
    // zoom levels (data + index each), or main index first unless it has to be last
    let mut zoom_out = vec![];
    let write_main = |w: &mut W| -> u64 { write_rtree(w, &leaves, p, end_of_data) };
    let mut main_index = 0u64;
    if !p.nonleaf_last {
        main_index = write_main(&mut w);
    }
    for (zi, res) in p.zooms.iter().enumerate() {
        let recs = zoom_records(*res, signal);
        if recs.is_empty() {
            zoom_out.push((*res, recs));
            continue;
        }
        let doff = w.pos();
        if p.zoom_count_prefix {
            w.u32(recs.len() as u32);
        }
        let mut zleaves = vec![];
        // records of one block stay within one chromosome
        let mut i = 0;
        while i < recs.len() {
            let c = recs[i].chrom;
            let mut j = i;
            while j < recs.len() && recs[j].chrom == c && j - i < p.items_per_slot.max(1) as usize {
                j += 1;
            }
            let mut rw = W { be: p.big_endian, d: vec![] };
            for r in &recs[i..j] {
                rw.u32(r.chrom);
                rw.u32(r.start);
                rw.u32(r.end);
                rw.u32(r.valid);
                rw.f32(r.min);
                rw.f32(r.max);
                rw.f32(r.sum);
                rw.f32(r.sumsq);
            }
            max_raw = max_raw.max(rw.d.len());
            let z = deflate(&rw.d, p.compress);
            let off = w.pos();
            w.d.extend_from_slice(&z);
            zleaves.push(LeafItem { sc: c, sb: recs[i].start, ec: c, eb: recs[j - 1].end, off, size: z.len() as u64 });
            i = j;
        }
        let zend = w.pos();
        let ioff = write_rtree(&mut w, &zleaves, &EncParams { nonleaf_last: false, ..p.clone() }, zend);
        let h = 64 + 24 * zi;
        w.put_u32_at(h, *res);
        w.put_u64_at(h + 8, doff);
        w.put_u64_at(h + 16, ioff);
        zoom_out.push((*res, recs));
    }
    // levels without records are not listed: compact the zoom directory
    let listed: Vec<usize> = zoom_out.iter().enumerate().filter(|(_, z)| !z.1.is_empty()).map(|(i, _)| i).collect();
    if listed.len() != p.zooms.len() {
        let mut entries = vec![];
        for i in &listed {
            entries.push(w.d[64 + 24 * i..64 + 24 * i + 24].to_vec());
        }
        for (k, e) in entries.iter().enumerate() {
            w.d[64 + 24 * k..64 + 24 * k + 24].copy_from_slice(e);
        }
        for k in listed.len()..p.zooms.len() {
            for b in w.d[64 + 24 * k..64 + 24 * k + 24].iter_mut() {
                *b = 0;
            }
        }
        w.put_u16_at(6, listed.len() as u16);
    }
    if p.nonleaf_last {
        main_index = write_main(&mut w);
    }
    w.put_u64_at(24, main_index);
    w.put_u32_at(52, if p.compress { max_raw as u32 } else { 0 });
    if p.end_magic {
        w.u32(magic);
    }
    let b = p.rtree_block.max(2) as usize;
    let mut n = (leaves.len() + b - 1) / b;
    let mut levels = 1;
    while n > 1 {
        n = (n + b - 1) / b;
        levels += 1;
    }
    Encoded {
        bytes: w.d,
        zooms: zoom_out.into_iter().filter(|z| !z.1.is_empty()).collect(),
        summary,
        data_count,
        index_levels: levels,
    }
}

pub fn encode_bw(chroms: &[EncChrom], blocks: &[(u32, WigBlock)], p: &EncParams) -> Encoded {
    let nz = p.zooms.len() as u16;
    let w = header_skeleton(p.big_endian, 0x888F_FC26, p.version, nz, 0, 0);
    let mut raw_blocks = vec![];
    let mut per_chrom: std::collections::BTreeMap<u32, Vec<(u32, u32, f64)>> = Default::default();
    let (mut n, mut mn, mut mx, mut s, mut ss) = (0u64, f64::INFINITY, f64::NEG_INFINITY, 0f64, 0f64);
    for (c, b) in blocks {
        let items = b.items();
        let start = items.first().map(|i| i.s).unwrap_or(0);
        let end = items.iter().map(|i| i.e).max().unwrap_or(0);
        let mut rw = W { be: p.big_endian, d: vec![] };
        rw.u32(*c);
        rw.u32(start);
        rw.u32(end);
        match b {
            WigBlock::Bed(_) => {
                rw.u32(0);
                rw.u32(0);
            }
            WigBlock::Var { span, .. } => {
                rw.u32(0);
                rw.u32(*span);
            }
            WigBlock::Fixed { step, span, .. } => {
                rw.u32(*step);
                rw.u32(*span);
            }
        }
        rw.u8(b.kind());
        rw.u8(0);
        rw.u16(items.len() as u16);
        match b {
            WigBlock::Bed(v) => {
                for i in v {
                    rw.u32(i.s);
                    rw.u32(i.e);
                    rw.f32(i.v);
                }
            }
            WigBlock::Var { items, .. } => {
                for (st, v) in items {
                    rw.u32(*st);
                    rw.f32(*v);
                }
            }
            WigBlock::Fixed { vals, .. } => {
                for v in vals {
                    rw.f32(*v);
                }
            }
        }
        raw_blocks.push((*c, start, end, rw.d));
        for i in &items {
            let len = (i.e - i.s) as u64;
            if len > 0 {
                n += len;
                mn = mn.min(i.v as f64);
                mx = mx.max(i.v as f64);
                s += len as f64 * i.v as f64;
                ss += len as f64 * (i.v as f64) * (i.v as f64);
                per_chrom.entry(*c).or_default().push((i.s, i.e, i.v as f64));
            }
        }
    }
    if n == 0 {
        mn = 0.0;
        mx = 0.0;
    }
    let signal: Vec<(u32, Vec<(u32, u32, f64)>)> = per_chrom.into_iter().collect();
    finish(w, p, 0x888F_FC26, chroms, raw_blocks, blocks.len() as u64, &signal, (n, mn, mx, s, ss), None)
}

#[derive(Serialize, Deserialize, Clone, Debug, PartialEq)]
pub struct EncEntry {
    pub s: u32,
    pub e: u32,
    pub rest: String,
}

pub fn encode_bb(
    chroms: &[EncChrom],
    entries: &[(u32, Vec<EncEntry>)], // per chromosome id, start-sorted
    autosql: &str,
    field_count: u16,
    p: &EncParams,
) -> Encoded {
    let nz = p.zooms.len() as u16;
    let w = header_skeleton(p.big_endian, 0x8789_F2EB, p.version, nz, field_count, field_count.min(12));
    let mut raw_blocks = vec![];
    let mut count = 0u64;
    let mut signal = vec![];
    let (mut n, mut mn, mut mx, mut s, mut ss) = (0u64, f64::INFINITY, f64::NEG_INFINITY, 0f64, 0f64);
    for (c, es) in entries {
        count += es.len() as u64;
        for chunk in es.chunks(p.items_per_slot.max(1) as usize) {
            let mut rw = W { be: p.big_endian, d: vec![] };
            for e in chunk {
                rw.u32(*c);
                rw.u32(e.s);
                rw.u32(e.e);
                rw.d.extend_from_slice(e.rest.as_bytes());
                rw.u8(0);
            }
            let start = chunk[0].s;
            let end = chunk.iter().map(|e| e.e).max().unwrap();
            raw_blocks.push((*c, start, end, rw.d));
        }
        // depth runs by event sweep
        let mut ev: Vec<(u32, i32)> = vec![];
        for e in es {
            if e.e > e.s {
                ev.push((e.s, 1));
                ev.push((e.e, -1));
            }
        }
        ev.sort();
        let mut runs: Vec<(u32, u32, f64)> = vec![];
        let mut depth = 0i64;
        let mut prev = 0u32;
        let mut i = 0;
        while i < ev.len() {
            let pos = ev[i].0;
            if depth > 0 && pos > prev {
                runs.push((prev, pos, depth as f64));
            }
            while i < ev.len() && ev[i].0 == pos {
                depth += ev[i].1 as i64;
                i += 1;
            }
            prev = pos;
        }
        for r in &runs {
            let len = (r.1 - r.0) as u64;
            n += len;
            mn = mn.min(r.2);
            mx = mx.max(r.2);
            s += len as f64 * r.2;
            ss += len as f64 * r.2 * r.2;
        }
        signal.push((*c, runs));
    }
    if n == 0 {
        mn = 0.0;
        mx = 0.0;
    }
    finish(w, p, 0x8789_F2EB, chroms, raw_blocks, count, &signal, (n, mn, mx, s, ss), Some(autosql.as_bytes()))
}
