//! Grammar-based autoSql generator (sound: everything it emits is documented autoSql that the
//! parser's own tests exercise: simple/object/table, sized and variable arrays, enum/set,
//! primary/unique/index/index[n], auto, comments with arbitrary non-quote characters).
use proptest::collection::vec;
use proptest::prelude::*;
use proptest::sample::select;
use serde::{Deserialize, Serialize};

#[derive(Serialize, Deserialize, Clone, Debug, PartialEq)]
pub struct GenSchema {
    pub text: String,
    /// number of fields of each declaration, in order
    pub field_counts: Vec<usize>,
    /// the token list the text was rendered from (for single-token mutations)
    pub tokens: Vec<String>,
}

const KEYWORDS: &[&str] = &[
    "primary", "index", "unique", "auto", "simple", "object", "table", "enum", "set", "int", "uint",
    "short", "ushort", "byte", "ubyte", "float", "double", "char", "string", "lstring", "bigint",
];

fn ident() -> BoxedStrategy<String> {
    prop_oneof![
        6 => "[a-z][A-Za-z0-9]{0,8}",
        1 => "[A-Z][A-Za-z0-9]{0,12}",
        1 => "[a-zéß][a-z0-9é世]{0,5}",
        // identifiers that differ from a keyword only in case (keywords are lower case)
        1 => select(vec!["Index", "Auto", "Primary", "Unique", "INDEX", "aUTO", "Table", "Simple", "Object", "Enum", "Set", "String", "Int"]).prop_map(|s| s.to_string()),
    ]
    .prop_map(|s| {
        if KEYWORDS.contains(&s.as_str()) {
            format!("{}x", s)
        } else {
            s
        }
    })
    .boxed()
}

fn ws() -> BoxedStrategy<String> {
    prop_oneof![
        8 => Just(" ".to_string()),
        3 => Just("\n".to_string()),
        2 => Just("\t".to_string()),
        2 => Just("\n    ".to_string()),
        1 => Just("  \t ".to_string()),
        1 => Just("\u{a0}".to_string()),
        1 => Just("\u{3000} ".to_string()),
        1 => Just("\r\n".to_string()),
    ]
    .boxed()
}

fn ows() -> BoxedStrategy<String> {
    prop_oneof![2 => Just(String::new()), 3 => ws()].boxed()
}

fn comment() -> BoxedStrategy<String> {
    prop_oneof![
        5 => "[A-Za-z0-9 .,_-]{0,20}",
        2 => "[ -!#-~]{0,30}",
        1 => "[a-zé世;()\\[\\],\n\t ]{0,12}",
    ]
    .prop_map(|s| format!("\"{}\"", s))
    .boxed()
}

fn base_type() -> BoxedStrategy<String> {
    prop_oneof![
        10 => select(vec![
            "int", "uint", "short", "ushort", "byte", "ubyte", "float", "double", "char", "string",
            "lstring", "bigint",
        ])
        .prop_map(|s| s.to_string()),
        1 => select(vec!["Ubyte", "INT", "String", "Float"]).prop_map(|s| s.to_string()),
    ]
    .boxed()
}

/// returns the tokens of one field (including separating whitespace tokens)
fn field() -> BoxedStrategy<Vec<String>> {
    let ty = prop_oneof![
        8 => base_type().prop_map(|t| vec![t]),
        1 => (select(vec!["enum", "set"]), vec(ident(), 0..=4), ows(), ows()).prop_map(|(k, vals, a, b)| {
            let mut t = vec![k.to_string(), a.clone(), "(".to_string()];
            for (i, v) in vals.iter().enumerate() {
                if i > 0 {
                    t.push(",".to_string());
                    t.push(b.clone());
                }
                t.push(v.clone());
            }
            t.push(")".to_string());
            t
        }),
        1 => (select(vec!["simple", "object", "table"]), ws(), ident()).prop_map(|(k, w, n)| vec![k.to_string(), w, n]),
    ];
    let size = prop_oneof![
        4 => Just(vec![]),
        1 => (ows(), 1u32..40, ows()).prop_map(|(a, n, b)| vec![a, "[".to_string(), n.to_string(), b, "]".to_string()]),
        1 => (ident(), ows()).prop_map(|(n, a)| vec!["[".to_string(), n, a, "]".to_string()]),
    ];
    let idx = prop_oneof![
        6 => Just(vec![]),
        1 => ws().prop_map(|w| vec![w, "primary".to_string()]),
        1 => ws().prop_map(|w| vec![w, "unique".to_string()]),
        1 => ws().prop_map(|w| vec![w, "index".to_string()]),
        1 => (ws(), 1u32..30, ows()).prop_map(|(w, n, a)| vec![w, "index".to_string(), a, "[".to_string(), n.to_string(), "]".to_string()]),
    ];
    let auto = prop_oneof![8 => Just(vec![]), 1 => ws().prop_map(|w| vec![w, "auto".to_string()])];
    let comm = prop_oneof![1 => Just(vec![]), 4 => (ows(), comment()).prop_map(|(w, c)| vec![w, c])];
    (ty, size, ws(), ident(), idx, auto, ows(), comm, ws())
        .prop_map(|(ty, size, w1, name, idx, auto, w2, comm, w3)| {
            let mut t = ty;
            t.extend(size);
            t.push(w1);
            t.push(name);
            t.extend(idx);
            t.extend(auto);
            t.push(w2);
            t.push(";".to_string());
            t.extend(comm);
            t.push(w3);
            t
        })
        .boxed()
}

fn declaration(min_fields: usize, max_fields: usize) -> BoxedStrategy<(Vec<String>, usize)> {
    let head_idx = prop_oneof![
        10 => Just(vec![]),
        1 => ws().prop_map(|w| vec![w, "primary".to_string()]),
        1 => ws().prop_map(|w| vec![w, "auto".to_string()]),
    ];
    let comm = prop_oneof![1 => Just(vec![]), 5 => comment().prop_map(|c| vec![c])];
    (
        select(vec!["table", "simple", "object"]),
        ws(),
        "[a-zA-Z][A-Za-z0-9]{0,10}",
        head_idx,
        ws(),
        comm,
        ows(),
        ows(),
        vec(field(), min_fields..=max_fields),
        ws(),
    )
        .prop_map(|(k, w1, name, hidx, w2, comm, w3, w4, fields, w5)| {
            let name = if KEYWORDS.contains(&name.to_lowercase().as_str()) {
                format!("{}x", name)
            } else {
                name
            };
            let n = fields.len();
            let mut t = vec![k.to_string(), w1, name];
            t.extend(hidx);
            t.push(w2);
            t.extend(comm);
            t.push(w3);
            t.push("(".to_string());
            t.push(w4);
            for f in fields {
                t.extend(f);
            }
            t.push(")".to_string());
            t.push(w5);
            (t, n)
        })
        .boxed()
}

pub fn schema(max_decls: usize, max_fields: usize) -> BoxedStrategy<GenSchema> {
    (ows(), vec(declaration(1, max_fields), 1..=max_decls))
        .prop_map(|(lead, decls)| {
            let mut tokens = vec![lead];
            let mut counts = vec![];
            for (t, n) in decls {
                tokens.extend(t);
                counts.push(n);
            }
            let tokens: Vec<String> = tokens.into_iter().filter(|t| !t.is_empty()).collect();
            GenSchema {
                text: tokens.concat(),
                field_counts: counts,
                tokens,
            }
        })
        .boxed()
}

pub fn single_table() -> BoxedStrategy<GenSchema> {
    schema(1, 24)
}
