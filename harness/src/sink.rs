//! In-memory destinations (plain, recording, fault-injecting) and an in-memory reopenable source.
use bigtools::utils::reopen::Reopen;
use std::io::{self, Read, Seek, SeekFrom, Write};
use std::sync::{Arc, Mutex};

#[derive(Clone, Debug, PartialEq)]
pub enum Op {
    Write(Vec<u8>),
    Seek(SeekFrom, u64), // requested, resulting position
    Flush,
}

#[derive(Clone, Copy, Debug, PartialEq, Eq)]
pub enum OpKind {
    Write,
    Seek,
    Flush,
}

#[derive(Default)]
pub struct SinkState {
    pub data: Vec<u8>,
    pub pos: u64,
    pub log: Option<Vec<Op>>,
    /// fail the n-th (0-based) operation of the given kind
    pub fail_at: Option<(OpKind, usize)>,
    pub counts: [usize; 3],
    pub failed: bool,
    /// after the first injected failure every later operation fails as well (dead device)
    pub sticky: bool,
    /// > 0: a single write() accepts at most this many bytes (short writes, as a pipe or socket does)
    pub max_write: usize,
}

/// A `Write + Seek + Send + 'static` destination whose bytes survive the writer that consumes it.
#[derive(Clone)]
pub struct SharedSink(pub Arc<Mutex<SinkState>>);

impl SharedSink {
    pub fn new() -> SharedSink {
        SharedSink(Arc::new(Mutex::new(SinkState::default())))
    }
    pub fn recording() -> SharedSink {
        let s = SinkState {
            log: Some(vec![]),
            ..Default::default()
        };
        SharedSink(Arc::new(Mutex::new(s)))
    }
    /// a recording destination that already holds `data` (a file written earlier), positioned at 0
    pub fn recording_over(data: Vec<u8>) -> SharedSink {
        Self::recording_over_at(data, 0)
    }
    /// ... with the cursor left at `pos` (a handle that was used to read the old file before)
    pub fn recording_over_at(data: Vec<u8>, pos: u64) -> SharedSink {
        let s = SinkState {
            data,
            pos,
            log: Some(vec![]),
            ..Default::default()
        };
        SharedSink(Arc::new(Mutex::new(s)))
    }
    pub fn failing(kind: OpKind, n: usize, sticky: bool) -> SharedSink {
        let s = SinkState {
            fail_at: Some((kind, n)),
            sticky,
            ..Default::default()
        };
        SharedSink(Arc::new(Mutex::new(s)))
    }
    /// a destination that accepts at most `cap` bytes per write() call (0 = everything)
    pub fn short_writes(cap: usize) -> SharedSink {
        let s = SinkState {
            max_write: cap,
            ..Default::default()
        };
        SharedSink(Arc::new(Mutex::new(s)))
    }
    pub fn bytes(&self) -> Vec<u8> {
        self.0.lock().unwrap_or_else(|e| e.into_inner()).data.clone()
    }
    pub fn log(&self) -> Vec<Op> {
        self.0
            .lock()
            .unwrap_or_else(|e| e.into_inner())
            .log
            .clone()
            .unwrap_or_default()
    }
    pub fn failed(&self) -> bool {
        self.0.lock().unwrap_or_else(|e| e.into_inner()).failed
    }
}

fn injected() -> io::Error {
    io::Error::new(io::ErrorKind::Other, "injected fault")
}

impl SinkState {
    fn should_fail(&mut self, kind: OpKind) -> bool {
        let k = kind as usize;
        let n = self.counts[k];
        self.counts[k] += 1;
        if self.failed && self.sticky {
            return true;
        }
        if let Some((fk, fnth)) = self.fail_at {
            if fk == kind && fnth == n {
                self.failed = true;
                return true;
            }
        }
        false
    }
}

impl Write for SharedSink {
    fn write(&mut self, buf: &[u8]) -> io::Result<usize> {
        let mut g = self.0.lock().unwrap_or_else(|e| e.into_inner());
        if g.should_fail(OpKind::Write) {
            return Err(injected());
        }
        let buf = if g.max_write > 0 && buf.len() > g.max_write { &buf[..g.max_write] } else { buf };
        let pos = g.pos as usize;
        if g.data.len() < pos {
            g.data.resize(pos, 0);
        }
        let end = pos + buf.len();
        if g.data.len() < end {
            g.data.resize(end, 0);
        }
        g.data[pos..end].copy_from_slice(buf);
        g.pos = end as u64;
        if let Some(l) = g.log.as_mut() {
            l.push(Op::Write(buf.to_vec()));
        }
        Ok(buf.len())
    }
    fn flush(&mut self) -> io::Result<()> {
        let mut g = self.0.lock().unwrap_or_else(|e| e.into_inner());
        if g.should_fail(OpKind::Flush) {
            return Err(injected());
        }
        if let Some(l) = g.log.as_mut() {
            l.push(Op::Flush);
        }
        Ok(())
    }
}

impl Seek for SharedSink {
    fn seek(&mut self, p: SeekFrom) -> io::Result<u64> {
        let mut g = self.0.lock().unwrap_or_else(|e| e.into_inner());
        // position queries (Current(0)) are not destination operations worth failing
        let is_query = matches!(p, SeekFrom::Current(0));
        if !is_query && g.should_fail(OpKind::Seek) {
            return Err(injected());
        }
        let new = match p {
            SeekFrom::Start(o) => o as i128,
            SeekFrom::End(o) => g.data.len() as i128 + o as i128,
            SeekFrom::Current(o) => g.pos as i128 + o as i128,
        };
        if new < 0 {
            return Err(io::Error::new(io::ErrorKind::InvalidInput, "seek before start"));
        }
        g.pos = new as u64;
        let np = g.pos;
        if !is_query {
            if let Some(l) = g.log.as_mut() {
                l.push(Op::Seek(p, np));
            }
        }
        Ok(np)
    }
}

/// replay the first k operations of a log into a fresh byte vector (what a crash after the k-th
/// operation leaves behind)
pub fn apply_prefix(log: &[Op], k: usize, torn: Option<usize>) -> Vec<u8> {
    apply_prefix_over(vec![], log, k, torn)
}

/// the first `k` operations of `log` applied to a destination that already holds `data`
pub fn apply_prefix_over(data: Vec<u8>, log: &[Op], k: usize, torn: Option<usize>) -> Vec<u8> {
    apply_prefix_over_at(data, 0, log, k, torn)
}

/// ... with the destination's cursor initially at `start`
pub fn apply_prefix_over_at(data: Vec<u8>, start: usize, log: &[Op], k: usize, torn: Option<usize>) -> Vec<u8> {
    let mut data: Vec<u8> = data;
    let mut pos: usize = start;
    for (i, op) in log.iter().enumerate() {
        if i >= k {
            if i == k {
                if let (Some(t), Op::Write(b)) = (torn, op) {
                    let b = &b[..t.min(b.len())];
                    if data.len() < pos + b.len() {
                        data.resize(pos + b.len(), 0);
                    }
                    data[pos..pos + b.len()].copy_from_slice(b);
                }
            }
            break;
        }
        match op {
            Op::Write(b) => {
                if data.len() < pos + b.len() {
                    data.resize(pos + b.len(), 0);
                }
                data[pos..pos + b.len()].copy_from_slice(b);
                pos += b.len();
            }
            Op::Seek(_, np) => pos = *np as usize,
            Op::Flush => {}
        }
    }
    data
}

/// In-memory, reopenable read source.
#[derive(Clone)]
pub struct MemFile {
    pub data: Arc<Vec<u8>>,
    pub pos: u64,
    /// > 0: a read() call returns at most this many bytes (short reads, as the Read contract allows)
    pub read_cap: usize,
}

thread_local! {
    static READ_CAP: std::cell::Cell<usize> = std::cell::Cell::new(0);
}

/// sources opened on this thread from now on hand out at most `cap` bytes per read() (0 = everything)
pub fn set_read_cap(cap: usize) {
    READ_CAP.with(|c| c.set(cap));
}

impl MemFile {
    pub fn new(data: Vec<u8>) -> MemFile {
        MemFile {
            data: Arc::new(data),
            pos: 0,
            read_cap: READ_CAP.with(|c| c.get()),
        }
    }
}

impl Read for MemFile {
    fn read(&mut self, buf: &mut [u8]) -> io::Result<usize> {
        let len = self.data.len() as u64;
        if self.pos >= len {
            return Ok(0);
        }
        let mut n = buf.len().min((len - self.pos) as usize);
        if self.read_cap > 0 {
            n = n.min(self.read_cap);
        }
        let p = self.pos as usize;
        buf[..n].copy_from_slice(&self.data[p..p + n]);
        self.pos += n as u64;
        Ok(n)
    }
}

impl Seek for MemFile {
    fn seek(&mut self, p: SeekFrom) -> io::Result<u64> {
        let new = match p {
            SeekFrom::Start(o) => o as i128,
            SeekFrom::End(o) => self.data.len() as i128 + o as i128,
            SeekFrom::Current(o) => self.pos as i128 + o as i128,
        };
        if new < 0 {
            return Err(io::Error::new(io::ErrorKind::InvalidInput, "seek before start"));
        }
        self.pos = new as u64;
        Ok(self.pos)
    }
}

impl Reopen for MemFile {
    fn reopen(&self) -> io::Result<Self> {
        Ok(MemFile {
            data: self.data.clone(),
            pos: 0,
            read_cap: self.read_cap,
        })
    }
}
