//! proptest strategies: chromosome sets, bigWig / bigBed layouts (constructed, not filtered),
//! option sets. Every random choice lives here so that shrinking and replay work.
use crate::findings;
use crate::model::*;
use crate::runner::Tier;
use proptest::collection::vec;
use proptest::prelude::*;
use proptest::sample::select;

/// positions and chromosome sizes are u32 in the format: the whole range is used
pub const POS_LIMIT: u64 = u32::MAX as u64;

/// where a chromosome's items start: mostly at the beginning, sometimes just below 2^31, beyond it,
/// or so close to 2^32 that the layout ends at the very top of the coordinate range
fn base_offset() -> BoxedStrategy<u64> {
    prop_oneof![
        16 => Just(0u64),
        1 => Just((1u64 << 31) - 40),
        1 => Just(3_000_000_000u64),
        1 => (0u64..3_000_000).prop_map(|k| u32::MAX as u64 - 3_000_000 + k),
    ]
    .boxed()
}

pub fn chrom_name() -> BoxedStrategy<String> {
    prop_oneof![
        4 => "chr[0-9]{1,2}",
        3 => "[A-Za-z0-9_.]{1,12}",
        2 => "[!-~]{1,20}",
        1 => "[a-zé世ß]{1,10}",
        1 => "[A-Za-z0-9]{30,40}",
    ]
    .boxed()
}

/// distinct names; sorted bytewise when `sorted`, otherwise in generated (arbitrary) order
pub fn chrom_names(min: usize, max: usize, sorted: bool) -> BoxedStrategy<Vec<String>> {
    // now and then two names differ only in the case of their ASCII letters (chrM / CHRm)
    let set = (proptest::collection::btree_set(chrom_name(), min..=max), prop::bool::weighted(0.12)).prop_map(move |(mut s, twin)| {
        if twin && s.len() < max.max(2) {
            if let Some(first) = s.iter().next().cloned() {
                let flipped: String = first
                    .chars()
                    .map(|c| if c.is_ascii_lowercase() { c.to_ascii_uppercase() } else if c.is_ascii_uppercase() { c.to_ascii_lowercase() } else { c })
                    .collect();
                s.insert(flipped);
            }
        }
        s
    });
    if sorted {
        set.prop_map(|s| s.into_iter().collect::<Vec<_>>()).boxed()
    } else {
        set.prop_map(|s| s.into_iter().collect::<Vec<_>>())
            .prop_shuffle()
            .boxed()
    }
}

pub fn finite_f32() -> BoxedStrategy<f32> {
    prop_oneof![
        4 => (-6i32..=6).prop_map(|i| i as f32),
        2 => (-2000i32..=2000).prop_map(|i| i as f32 / 8.0),
        3 => any::<u32>().prop_map(|b| {
            let f = f32::from_bits(b);
            if f.is_finite() { f } else { f32::from_bits(b & 0xbfff_ffff) }
        }),
        1 => select(vec![
            0.0f32, -0.0, f32::MAX, f32::MIN, f32::MIN_POSITIVE, -f32::MIN_POSITIVE,
            1.0e-45, -1.0e-45, 0.1, 1.5, 16777216.0, 0.06792, 14254.0,
        ]),
    ]
    .boxed()
}

#[derive(Clone, Copy, Debug)]
pub struct Gap(pub u32);

fn gap() -> BoxedStrategy<u32> {
    prop_oneof![
        5 => Just(0u32),
        3 => Just(1u32),
        4 => 2u32..20,
        3 => 20u32..300,
        2 => 300u32..5000,
        1 => 5000u32..200_000,
    ]
    .boxed()
}

fn len(zero_ok: bool) -> BoxedStrategy<u32> {
    let z = if zero_ok { 1 } else { 0 };
    prop_oneof![
        z => Just(0u32),
        4 => Just(1u32),
        5 => 2u32..20,
        3 => 20u32..300,
        1 => 300u32..50_000,
    ]
    .boxed()
}

/// tail between the last item and the chromosome end
fn tail() -> BoxedStrategy<u32> {
    prop_oneof![
        5 => Just(0u32),
        2 => Just(1u32),
        2 => 2u32..100,
        1 => 100u32..100_000,
        1 => 1_000_000u32..2_000_000_000,
    ]
    .boxed()
}

/// one chromosome's bigWig values: constructed from (gap, len, value) triples
pub fn bw_vals(max_items: usize) -> BoxedStrategy<(Vec<BwVal>, u32)> {
    (vec((gap(), len(true), finite_f32()), 1..=max_items), tail(), base_offset())
        .prop_map(|(triples, tail, offset)| {
            let mut vals = Vec::with_capacity(triples.len());
            let mut pos: u64 = offset;
            for (g, l, v) in triples {
                let mut s = pos + g as u64;
                let mut e = s + l as u64;
                if e > POS_LIMIT - 4 {
                    s = pos;
                    e = (pos + (l as u64 % 3)).min(POS_LIMIT - 4);
                }
                vals.push(BwVal {
                    s: s as u32,
                    e: e as u32,
                    v,
                });
                pos = e;
            }
            let size = (pos + tail as u64).min(POS_LIMIT).max(1) as u32;
            (vals, size)
        })
        .boxed()
}

/// K1: a zero-length value at position 0 or at the chromosome end can never be returned by a
/// range query. While the finding is listed the layout is nudged (and the nudge is labelled).
pub fn exclude_k1(c: &mut BwChrom) -> bool {
    if !findings::active("K1") {
        return false;
    }
    let mut changed = false;
    // zero-length values at 0: move them (and anything else at 0 before a positive value) to 1
    let has0 = c.vals.iter().any(|v| v.s == 0 && v.e == 0);
    if has0 {
        // shift everything by one base
        for v in c.vals.iter_mut() {
            v.s += 1;
            v.e += 1;
        }
        c.size = (c.size as u64 + 1).min(POS_LIMIT) as u32;
        changed = true;
    }
    let sz = c.size;
    if c.vals.iter().any(|v| v.s == v.e && v.e == sz) {
        if (sz as u64) < POS_LIMIT {
            c.size += 1;
        } else {
            c.vals.retain(|v| !(v.s == v.e && v.e == sz));
            if c.vals.is_empty() {
                c.vals.push(BwVal { s: 0, e: 1, v: 1.0 });
            }
        }
        changed = true;
    }
    changed
}

pub fn bw_input(max_chroms: usize, max_items: usize, sorted: bool) -> BoxedStrategy<BwInput> {
    (
        chrom_names(1, max_chroms + 2, sorted),
        vec(bw_vals(max_items), max_chroms),
        0usize..=2,
        vec(1u32..5_000_000, 3),
    )
        .prop_map(move |(names, layouts, n_unused, unused_sizes)| {
            let n_data = names.len().min(layouts.len()).max(1);
            // which names carry data: the first n_data minus up to n_unused taken from the rest
            let n_unused = n_unused.min(names.len().saturating_sub(1));
            let n_data = n_data.min(names.len() - n_unused).max(1);
            let mut chroms = vec![];
            let mut unused = vec![];
            // spread the unused names over the sorted list (take every k-th) so that they are
            // not always the largest names
            let mut data_idx = 0;
            for (i, name) in names.iter().enumerate() {
                let is_unused = unused.len() < n_unused && (i % 3 == 1 || names.len() - i <= n_unused - unused.len());
                if is_unused || data_idx >= n_data {
                    if unused.len() < 3 {
                        unused.push((name.clone(), unused_sizes[unused.len()]));
                    }
                    continue;
                }
                let (vals, size) = layouts[data_idx].clone();
                data_idx += 1;
                chroms.push(BwChrom {
                    name: name.clone(),
                    size,
                    vals,
                });
            }
            if chroms.is_empty() {
                let (vals, size) = layouts[0].clone();
                chroms.push(BwChrom {
                    name: names[0].clone(),
                    size,
                    vals,
                });
                unused.retain(|u| u.0 != names[0]);
            }
            BwInput { chroms, unused }
        })
        .boxed()
}

// ---------------------------------------------------------------------------------------------
// bigBed

pub fn rest_field() -> BoxedStrategy<String> {
    prop_oneof![
        4 => "[A-Za-z0-9_.+-]{0,8}",
        2 => "[ -~]{0,12}",
        1 => "[a-zé世ß ]{1,6}",
        1 => Just(String::new()),
    ]
    .boxed()
}

/// 0..=20 TAB-separated fields; the last field is non-empty and does not end in whitespace
pub fn rest() -> BoxedStrategy<String> {
    prop_oneof![
        3 => Just(Vec::<String>::new()).boxed(),
        5 => vec(rest_field(), 1..=4).boxed(),
        2 => vec(rest_field(), 5..=20).boxed(),
    ]
    .prop_map(|mut fields: Vec<String>| {
        if let Some(last) = fields.last_mut() {
            let t = last.trim_end().to_string();
            *last = if t.is_empty() { "x".to_string() } else { t };
        }
        fields.join("\t")
    })
    .boxed()
}

fn bb_delta() -> BoxedStrategy<u32> {
    prop_oneof![
        5 => Just(0u32),
        3 => Just(1u32),
        4 => 2u32..20,
        3 => 20u32..300,
        1 => 300u32..50_000,
    ]
    .boxed()
}

fn bb_len() -> BoxedStrategy<u32> {
    prop_oneof![
        1 => Just(0u32),
        3 => Just(1u32),
        5 => 2u32..20,
        4 => 20u32..300,
        2 => 300u32..5_000,
        1 => 5_000u32..400_000,
    ]
    .boxed()
}

/// one chromosome's entries: start-sorted by construction, ends independent
pub fn bb_entries(max_items: usize, with_rest: bool) -> BoxedStrategy<(Vec<BbEntry>, u32)> {
    let r = if with_rest { rest() } else { Just(String::new()).boxed() };
    (vec((bb_delta(), bb_len(), r), 1..=max_items), tail(), 0u8..10, base_offset())
        .prop_map(|(triples, tail, over, offset)| {
            let mut entries = Vec::with_capacity(triples.len());
            let mut start: u64 = offset.min(POS_LIMIT - 600_000);
            let mut max_end: u64 = 0;
            for (d, l, rest) in triples {
                let mut s = start + d as u64;
                if s > POS_LIMIT - 500_000 {
                    s = start;
                }
                let e = s + l as u64;
                entries.push(BbEntry {
                    s: s as u32,
                    e: e as u32,
                    rest,
                });
                start = s;
                max_end = max_end.max(e);
            }
            // size: normally covers every end; occasionally (over == 0) only just past the last
            // start so that some ends lie beyond the chromosome (the writer accepts that)
            let size = if over == 0 {
                start + 1
            } else {
                (max_end.max(start + 1) + tail as u64).min(POS_LIMIT)
            };
            (entries, size.max(1) as u32)
        })
        .boxed()
}

/// K2: a (0,0) entry is stored but makes the reader fail the whole block
pub fn exclude_k2(c: &mut BbChrom) -> bool {
    if !findings::active("K2") {
        return false;
    }
    let mut changed = false;
    for e in c.entries.iter_mut() {
        if e.s == 0 && e.e == 0 {
            e.e = 1;
            changed = true;
        }
    }
    changed
}

pub fn autosql_choice() -> BoxedStrategy<Option<String>> {
    prop_oneof![
        4 => Just(None),
        3 => crate::autosql_gen::single_table().prop_map(|t| Some(t.text)),
        1 => "[ -~\n\t]{0,60}".prop_map(Some),
        1 => "[a-zé世 ()\";,\\[\\]\n]{0,40}".prop_map(Some),
    ]
    .boxed()
}

pub fn bb_input(max_chroms: usize, max_items: usize, sorted: bool, with_rest: bool) -> BoxedStrategy<BbInput> {
    (
        chrom_names(1, max_chroms + 2, sorted),
        vec(bb_entries(max_items, with_rest), max_chroms),
        0usize..=2,
        vec(1u32..5_000_000, 3),
        autosql_choice(),
    )
        .prop_map(move |(names, layouts, n_unused, unused_sizes, autosql)| {
            let n_unused = n_unused.min(names.len().saturating_sub(1));
            let n_data = layouts.len().min(names.len() - n_unused).max(1);
            let mut chroms = vec![];
            let mut unused = vec![];
            let mut data_idx = 0;
            for (i, name) in names.iter().enumerate() {
                let is_unused = unused.len() < n_unused && (i % 3 == 1 || names.len() - i <= n_unused - unused.len());
                if is_unused || data_idx >= n_data {
                    if unused.len() < 3 {
                        unused.push((name.clone(), unused_sizes[unused.len()]));
                    }
                    continue;
                }
                let (entries, size) = layouts[data_idx].clone();
                data_idx += 1;
                chroms.push(BbChrom {
                    name: name.clone(),
                    size,
                    entries,
                });
            }
            if chroms.is_empty() {
                let (entries, size) = layouts[0].clone();
                chroms.push(BbChrom {
                    name: names[0].clone(),
                    size,
                    entries,
                });
                unused.retain(|u| u.0 != names[0]);
            }
            BbInput {
                chroms,
                unused,
                autosql,
            }
        })
        .boxed()
}

// ---------------------------------------------------------------------------------------------
// options

pub fn zoom_spec(small: bool) -> BoxedStrategy<ZoomSpec> {
    let manual_sizes: Vec<u32> = if small {
        vec![1, 2, 3, 4, 5, 7, 8, 10, 16, 25, 40, 64, 100, 160, 256, 1000, 4096]
    } else {
        vec![1, 2, 5, 10, 16, 40, 64, 160, 640, 1000, 2560, 10240, 100_000]
    };
    prop_oneof![
        3 => (select(vec![1u32, 2, 7, 10, 160, 4096, 1 << 20]), prop_oneof![8 => 0u32..=10, 1 => 11u32..=14]).prop_map(|(initial, max)| ZoomSpec::Auto { initial, max }),
        3 => proptest::sample::subsequence(manual_sizes.clone(), 0..=6).prop_map(ZoomSpec::Manual),
        // more levels than the ten header slots UCSC tools use
        1 => proptest::sample::subsequence(manual_sizes.clone(), 11..=manual_sizes.len().min(14)).prop_map(ZoomSpec::Manual),
        // the list is a public option and nothing says it must be ascending, distinct or non-zero
        1 => (proptest::sample::subsequence(manual_sizes.clone(), 1..=5), any::<u64>(), prop::bool::weighted(0.3), prop::bool::weighted(0.2))
            .prop_map(|(mut v, seed, dup, zero)| {
                if dup {
                    v.push(v[(seed % v.len() as u64) as usize]);
                }
                if zero {
                    v.push(0);
                }
                // seeded Fisher-Yates
                let mut x = seed | 1;
                for i in (1..v.len()).rev() {
                    x ^= x << 13;
                    x ^= x >> 7;
                    x ^= x << 17;
                    v.swap(i, (x % (i as u64 + 1)) as usize);
                }
                ZoomSpec::Manual(v)
            }),
    ]
    .boxed()
}

pub fn source_kind() -> BoxedStrategy<SourceKind> {
    prop_oneof![
        3 => Just(SourceKind::Infallible),
        2 => Just(SourceKind::Fallible),
        2 => Just(SourceKind::SerialText),
        2 => Just(SourceKind::ParallelText),
    ]
    .boxed()
}

pub fn threads() -> BoxedStrategy<u8> {
    prop_oneof![
        3 => Just(0u8),
        2 => Just(1u8),
        3 => 2u8..=4,
        1 => 5u8..=16,
    ]
    .boxed()
}

pub fn opts(small_zooms: bool) -> BoxedStrategy<Opts> {
    (
        any::<bool>(),
        select(vec![1u32, 2, 3, 5, 8, 64, 1024, 65535]),
        select(vec![2u32, 3, 4, 5, 16, 256]),
        zoom_spec(small_zooms),
        select(vec![0usize, 1, 100]),
        any::<bool>(),
        threads(),
        any::<bool>(),
        source_kind(),
        prop::bool::weighted(0.7),
        prop::bool::weighted(0.35),
        proptest::option::weighted(0.5, 0u32..=10),
    )
        .prop_map(
            |(compress, items_per_slot, block_size, zoom, channel_size, inmemory, threads, multipass, source, sorted, no_final_newline, max_zooms_with_manual)| Opts {
                compress,
                items_per_slot,
                block_size,
                zoom,
                channel_size,
                inmemory,
                threads,
                multipass,
                source,
                sorted_chroms: sorted,
                no_final_newline,
                max_zooms_with_manual,
            },
        )
        .boxed()
}

pub fn tier_items(tier: Tier) -> usize {
    tier.pick(80, 400)
}
pub fn tier_chroms(tier: Tier) -> usize {
    tier.pick(6, 12)
}

/// Keep a case cheap: the number of zoom sections is about Σ_levels (bases/resolution)/items_per_slot
/// and every section is a spawned task. When the product explodes (tiny items_per_slot x tiny
/// resolution x long values) the *resolutions* are coarsened — a different, equally legal option
/// set — rather than the case being rejected.
pub fn tame_zooms(bases: u64, items: u64, o: &mut Opts, budget: u64) {
    // sections (one spawned task each) plus the sheer number of zoom records (a resolution of 1 over a
    // quarter of a million covered bases is a quarter of a million records per level, however large the slots)
    let cost = |levels: &[u64], ips: u64| -> u64 {
        levels.iter().map(|r| (bases / r.max(&1) + items) / ips.max(1) + 1 + bases / r.max(&1) / 200).sum()
    };
    let ips = o.items_per_slot as u64;
    match &mut o.zoom {
        ZoomSpec::Auto { initial, max } => {
            loop {
                let levels: Vec<u64> = (0..*max).map(|k| (*initial as u64) << (2 * k)).collect();
                if cost(&levels, ips) <= budget || *initial > 1 << 24 {
                    break;
                }
                *initial *= 4;
            }
            // (the automatic list initial * 4^k may run past u32: the writer has to stop there by itself)
        }
        ZoomSpec::Manual(v) => {
            loop {
                let levels: Vec<u64> = v.iter().map(|x| *x as u64).collect();
                if cost(&levels, ips) <= budget || v.is_empty() {
                    break;
                }
                // drop the finest level (the list need not be ascending)
                let k = (0..v.len()).min_by_key(|i| v[*i]).unwrap();
                v.remove(k);
            }
        }
    }
}

pub fn zoom_budget(tier: Tier) -> u64 {
    tier.pick(2_000, 10_000)
}

/// (input, opts) with the chromosome order consistent with opts.sorted_chroms
pub fn bw_case(tier: Tier, small_zooms: bool) -> BoxedStrategy<(BwInput, Opts)> {
    let mi = tier_items(tier);
    let mc = tier_chroms(tier);
    let budget = zoom_budget(tier);
    opts(small_zooms)
        .prop_flat_map(move |o| {
            let sorted = o.sorted_chroms;
            (bw_input(mc, mi, sorted), Just(o))
        })
        .prop_map(move |(input, mut o)| {
            let bases: u64 = input
                .chroms
                .iter()
                .map(|c| c.vals.iter().map(|v| (v.e - v.s) as u64).sum::<u64>())
                .sum();
            tame_zooms(bases, input.n_items() as u64, &mut o, budget);
            (input, o)
        })
        .boxed()
}

pub fn bb_case(tier: Tier, small_zooms: bool, with_rest: bool) -> BoxedStrategy<(BbInput, Opts)> {
    let mi = tier_items(tier);
    let mc = tier_chroms(tier);
    let budget = zoom_budget(tier);
    opts(small_zooms)
        .prop_flat_map(move |o| {
            let sorted = o.sorted_chroms;
            (bb_input(mc, mi, sorted, with_rest), Just(o))
        })
        .prop_map(move |(input, mut o)| {
            // covered bases <= span of the union of entries
            let bases: u64 = input
                .chroms
                .iter()
                .map(|c| {
                    let lo = c.entries.first().map(|e| e.s).unwrap_or(0) as u64;
                    let hi = c.entries.iter().map(|e| e.e).max().unwrap_or(0) as u64;
                    hi.saturating_sub(lo).min(c.entries.iter().map(|e| (e.e - e.s) as u64).sum())
                })
                .sum();
            tame_zooms(bases, input.n_items() as u64, &mut o, budget);
            (input, o)
        })
        .boxed()
}

pub fn label_opts(o: &Opts, obs: &mut crate::runner::Obs) {
    obs.label(if o.compress { "compress" } else { "uncompressed" });
    obs.label(&format!("ips={}", o.items_per_slot));
    obs.label(&format!("bs={}", o.block_size));
    obs.label(&format!("chan={}", o.channel_size));
    obs.label(if o.inmemory { "inmemory" } else { "tempfile" });
    obs.label(if o.multipass { "two-pass" } else { "single-pass" });
    obs.label(match o.source {
        SourceKind::Infallible => "src=iter",
        SourceKind::Fallible => "src=fallible-iter",
        SourceKind::SerialText => "src=serial-text",
        SourceKind::ParallelText => "src=parallel-text",
    });
    obs.label_if(
        o.no_final_newline && matches!(o.source, SourceKind::SerialText | SourceKind::ParallelText),
        "text-without-final-newline",
    );
    if let (ZoomSpec::Manual(v), Some(m)) = (&o.zoom, o.max_zooms_with_manual) {
        obs.label_if((v.len() as u32) > m, "manual-zoom-list-longer-than-max_zooms");
    }
    obs.label(match o.threads {
        0 => "rt=current",
        1 => "rt=multi1",
        2..=4 => "rt=multi2-4",
        _ => "rt=multi5-16",
    });
    obs.label(match &o.zoom {
        ZoomSpec::Auto { .. } => "zoom=auto",
        ZoomSpec::Manual(v) if v.is_empty() => "zoom=manual-empty",
        ZoomSpec::Manual(_) => "zoom=manual",
    });
    obs.label(if o.sorted_chroms { "chroms=sorted" } else { "chroms=any-order" });
}
