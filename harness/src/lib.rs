pub mod autosql_gen;
pub mod drive;
pub mod findings;
pub mod gen;
pub mod model;
pub mod props;
pub mod runner;
pub mod sink;
