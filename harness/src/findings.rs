//! known_findings.json: read once, never written at run time.
use std::collections::BTreeMap;
use std::sync::OnceLock;

#[derive(Clone, Debug)]
pub struct Finding {
    pub id: String,
    pub property: String,
    pub status: String, // "finding" | "fixed"
    pub what: String,
}

static FINDINGS: OnceLock<BTreeMap<String, Finding>> = OnceLock::new();

pub fn verif_dir() -> String {
    std::env::var("VERIF_DIR").unwrap_or_else(|_| "/verif".to_string())
}

fn load() -> BTreeMap<String, Finding> {
    let mut m = BTreeMap::new();
    let path = format!("{}/known_findings.json", verif_dir());
    let txt = match std::fs::read_to_string(&path) {
        Ok(t) => t,
        Err(_) => return m,
    };
    let v: serde_json::Value = match serde_json::from_str(&txt) {
        Ok(v) => v,
        Err(_) => return m,
    };
    if let Some(arr) = v.get("entries").and_then(|e| e.as_array()) {
        for e in arr {
            let g = |k: &str| e.get(k).and_then(|x| x.as_str()).unwrap_or("").to_string();
            let f = Finding {
                id: g("id"),
                property: g("property"),
                status: g("status"),
                what: g("what"),
            };
            m.insert(f.id.clone(), f);
        }
    }
    m
}

pub fn all() -> &'static BTreeMap<String, Finding> {
    FINDINGS.get_or_init(load)
}

/// a finding that is listed as open: its signature is excluded from generated cases (counted)
/// and probed separately. Probe runs (`VERIF_PROBE=1`) see nothing as active.
pub fn active(id: &str) -> bool {
    if std::env::var("VERIF_PROBE").is_ok() {
        return false;
    }
    all().get(id).map(|f| f.status == "finding").unwrap_or(false)
}

pub fn what(id: &str) -> String {
    all().get(id).map(|f| f.what.clone()).unwrap_or_default()
}
