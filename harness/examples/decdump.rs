//! canonical digest of a BBI file from the Rust oracle decoder (same format as py/bbi_decode.py)
fn hexf(x: f64) -> String {
    // Python float.hex() is awkward to reproduce: print the raw bits instead (py side is adapted)
    format!("{:016x}", x.to_bits())
}
fn main() {
    for f in std::env::args().skip(1) {
        let bytes = std::fs::read(&f).unwrap();
        let d = vharness::indep::decode::decode_lenient(&bytes).unwrap_or_else(|e| panic!("{}: {}", f, e));
        let mut out = String::new();
        out += &format!(
            "H {} {} v{} zl{} fc{} dfc{} ubs{}\n",
            if d.is_bigwig { "bigwig" } else { "bigbed" },
            if d.big_endian { "be" } else { "le" },
            d.version, d.zoom_levels, d.field_count, d.defined_field_count, d.uncompress_buf_size
        );
        let mut cs = d.chroms.clone();
        cs.sort_by_key(|c| c.1);
        for c in cs {
            out += &format!("C {} {} {}\n", c.0, c.1, c.2);
        }
        for (i, l) in d.main_index.leaves.iter().enumerate() {
            out += &format!("L {} {} {} {}\n", l.start_chrom, l.start_base, l.end_chrom, l.end_base);
            if d.is_bigwig {
                let b = &d.bw_blocks[i];
                for it in &b.items {
                    out += &format!("B {} {} {} {:08x}\n", b.chrom, it.0, it.1, it.2.to_bits());
                }
            } else {
                for it in &d.bb_blocks[i] {
                    let hex: String = it.rest.iter().map(|b| format!("{:02x}", b)).collect();
                    out += &format!("E {} {} {} {}\n", it.chrom, it.start, it.end, hex);
                }
            }
        }
        for z in &d.zooms {
            out += &format!("Z {} {}\n", z.reduction, z.index.leaves.len());
            for b in &z.blocks {
                for r in b {
                    out += &format!(
                        "R {} {} {} {} {:08x} {:08x} {:08x} {:08x}\n",
                        r.chrom, r.start, r.end, r.valid, r.min.to_bits(), r.max.to_bits(), r.sum.to_bits(), r.sumsq.to_bits()
                    );
                }
            }
        }
        if let Some(s) = d.summary {
            out += &format!("S {} {} {} {} {}\n", s.0, hexf(s.1), hexf(s.2), hexf(s.3), hexf(s.4));
        }
        print!("{}", out);
    }
}
