fn main() {
    let mut r = bigtools::BigWigRead::open_file("/repo/bigtools/resources/test/valid.bigWig").unwrap();
    let s = r.get_summary().unwrap();
    println!("{:?}", s);
    let bytes = std::fs::read("/repo/bigtools/resources/test/valid.bigWig").unwrap();
    let fdo = u64::from_le_bytes(bytes[16..24].try_into().unwrap()) as usize;
    println!("fdo={} bytes at fdo: {:02x?}", fdo, &bytes[fdo..fdo+12]);
}
