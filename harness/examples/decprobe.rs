fn main() {
    for f in std::env::args().skip(1) {
        let bytes = std::fs::read(&f).unwrap();
        match vharness::indep::decode::decode_lenient(&bytes) {
            Ok(d) => println!(
                "{}: ok bigwig={} be={} v{} chroms={} blocks={} zooms={:?} levels={} summary={:?} count={} ips={} bs={} maxinfl={} buf={}",
                f, d.is_bigwig, d.big_endian, d.version, d.chroms.len(),
                d.main_index.leaves.len(), d.zooms.iter().map(|z| (z.reduction, z.index.leaves.len(), z.index.levels)).collect::<Vec<_>>(),
                d.main_index.levels, d.summary, d.data_count, d.main_index.items_per_slot, d.main_index.block_size, d.max_inflated, d.uncompress_buf_size
            ),
            Err(e) => println!("{}: INVALID: {}", f, e),
        }
    }
}
