use bigtools::bed::autosql::parse::parse_autosql;
fn main() {
    let f = std::env::args().nth(1).unwrap();
    let v: serde_json::Value = serde_json::from_str(&std::fs::read_to_string(f).unwrap()).unwrap();
    let sql = v["case"]["input"]["autosql"].as_str().unwrap().to_string();
    // bisect over token prefixes
    let chars: Vec<(usize, char)> = sql.char_indices().collect();
    for n in (0..=chars.len()).rev() {
        let end = if n == chars.len() { sql.len() } else { chars[n].0 };
        let s = sql[..end].to_string();
        let (tx, rx) = std::sync::mpsc::channel();
        std::thread::spawn(move || { let r = parse_autosql(&s).map(|d| d.len()); let _ = tx.send(format!("{:?}", r)); });
        match rx.recv_timeout(std::time::Duration::from_millis(300)) {
            Ok(r) => { println!("prefix {} -> {}", n, r); if n + 3 < chars.len() { } }
            Err(_) => { println!("prefix {} HANGS: ...{:?}", n, &sql[..end][end.saturating_sub(40)..]); std::process::exit(0) }
        }
    }
}
