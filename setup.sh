#!/bin/bash
# MANIFEST.setup_cmd: build everything the checks need, offline, from files on disk.
set -eu
cd "$(dirname "$0")"
export VERIF_DIR="$(pwd)"
export CARGO_NET_OFFLINE=true
export CARGO_TARGET_DIR="$VERIF_DIR/target"
export RUSTFLAGS="--cfg bigtools_verif"
mkdir -p work evidence
(cd harness && cargo build --offline)
cargo build --offline --manifest-path /repo/Cargo.toml -p bigtools --bins --target-dir "$VERIF_DIR/target/repo"
if [ -x py/build_py.sh ]; then py/build_py.sh; fi
echo "setup done"
