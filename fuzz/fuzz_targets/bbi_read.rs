#![no_main]
//! C10 (coverage-guided): bytes -> layout knobs + content for the independent encoder -> the C10 oracle.
use arbitrary::{Arbitrary, Unstructured};
use libfuzzer_sys::fuzz_target;
use vharness::indep::encode::*;
use vharness::props::c10::{Case, Content, C10};
use vharness::runner::{Obs, Prop};

fn build(u: &mut Unstructured) -> arbitrary::Result<Case> {
    let nchrom = u.int_in_range(1..=4)? as usize;
    let mut chroms = vec![];
    for i in 0..nchrom {
        chroms.push(EncChrom { name: format!("c{}{}", i, "x".repeat(u.int_in_range(0..=3)?)), size: 0, id: i as u32 });
    }
    let ips = *u.choose(&[1u32, 2, 8, 64])?;
    let mut blocks = vec![];
    for c in chroms.iter_mut() {
        let nb = u.int_in_range(1..=6)?;
        let mut pos = 0u32;
        for _ in 0..nb {
            pos += u.int_in_range(0..=50)?;
            let n = u.int_in_range(1..=ips.min(6))? as usize;
            let kind = u.int_in_range(1..=3)?;
            match kind {
                1 => {
                    let mut v = vec![];
                    for _ in 0..n {
                        let s = pos + u.int_in_range(0..=9)?;
                        let e = s + u.int_in_range(1..=20)?;
                        v.push(Item { s, e, v: f32::from_bits(u32::arbitrary(u)? & 0xbf7f_ffff) });
                        pos = e;
                    }
                    blocks.push((c.id, WigBlock::Bed(v)));
                }
                2 => {
                    let span = u.int_in_range(1..=9)?;
                    let mut v = vec![];
                    for _ in 0..n {
                        let s = pos + u.int_in_range(0..=9)?;
                        v.push((s, f32::from_bits(u32::arbitrary(u)? & 0xbf7f_ffff)));
                        pos = s + span;
                    }
                    blocks.push((c.id, WigBlock::Var { span, items: v }));
                }
                _ => {
                    let span = u.int_in_range(1..=9)?;
                    let step = span + u.int_in_range(0..=9)?;
                    let vals: Vec<f32> = (0..n).map(|_| Ok(f32::from_bits(u32::arbitrary(u)? & 0xbf7f_ffff))).collect::<arbitrary::Result<_>>()?;
                    blocks.push((c.id, WigBlock::Fixed { start: pos, step, span, vals }));
                    pos = pos + step * (n as u32 - 1) + span;
                }
            }
        }
        c.size = pos + 1;
    }
    let params = EncParams {
        big_endian: bool::arbitrary(u)?,
        compress: bool::arbitrary(u)?,
        version: u.int_in_range(1..=4)?,
        chrom_block: *u.choose(&[2u32, 3, 256])?,
        rtree_block: u.int_in_range(2..=5)?,
        items_per_slot: ips,
        placement: match u.int_in_range(0..=3)? {
            0 => Placement::LevelOrder,
            1 => Placement::Reverse,
            2 => Placement::LeavesFirst,
            _ => Placement::Shuffled(u32::arbitrary(u)?),
        },
        pad: u.int_in_range(0..=5)?,
        nonleaf_last: bool::arbitrary(u)?,
        zooms: if bool::arbitrary(u)? { vec![4, 32] } else { vec![] },
        count_u32: bool::arbitrary(u)?,
        end_magic: bool::arbitrary(u)?,
        zoom_count_prefix: bool::arbitrary(u)?,
        no_summary: u.int_in_range(0..=3)? == 0,
        ragged: u.int_in_range(0..=2)? == 0,
    };
    Ok(Case { chroms, content: Content::Wig { blocks }, params })
}

fuzz_target!(|data: &[u8]| {
    let mut u = Unstructured::new(data);
    if let Ok(case) = build(&mut u) {
        let mut obs = Obs::default();
        if let Err(m) = C10::check(&case, &mut obs) {
            panic!("C10 oracle: {}\ncase: {}", m, serde_json_string(&case));
        }
    }
});

fn serde_json_string(c: &Case) -> String {
    format!("{:?}", c)
}
