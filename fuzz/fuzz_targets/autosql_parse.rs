#![no_main]
//! C19 totality: any string terminates without panic (libFuzzer's -timeout / -rss_limit_mb are the
//! termination and memory oracles; a panic is a crash).
use libfuzzer_sys::fuzz_target;

fuzz_target!(|data: &[u8]| {
    if let Ok(s) = std::str::from_utf8(data) {
        let _ = bigtools::bed::autosql::parse::parse_autosql(s);
    }
});
