#![no_main]
//! C01 (coverage-guided): bytes -> layout + options -> write -> read back -> model oracle.
use arbitrary::{Arbitrary, Unstructured};
use libfuzzer_sys::fuzz_target;
use vharness::model::*;
use vharness::props::c01::{Case, C01};
use vharness::runner::{Obs, Prop};

fn build(u: &mut Unstructured) -> arbitrary::Result<Case> {
    let nchrom = u.int_in_range(1..=3)? as usize;
    let mut chroms = vec![];
    for i in 0..nchrom {
        let n = u.int_in_range(1..=30)?;
        let mut vals = vec![];
        let mut pos = u.int_in_range(0..=3)? as u32;
        for _ in 0..n {
            let s = pos + *u.choose(&[0u32, 0, 1, 7, 300])?;
            let e = s + *u.choose(&[1u32, 1, 2, 9, 500])?;
            vals.push(BwVal { s, e, v: f32::from_bits(u32::arbitrary(u)? & 0xbf7f_ffff) });
            pos = e;
        }
        chroms.push(BwChrom { name: format!("chr{}", i), size: pos + *u.choose(&[0u32, 1, 1000])?, vals });
    }
    let mut o = Opts::default();
    o.compress = bool::arbitrary(u)?;
    o.items_per_slot = *u.choose(&[1u32, 2, 3, 8, 1024])?;
    o.block_size = *u.choose(&[2u32, 3, 5, 256])?;
    o.multipass = bool::arbitrary(u)?;
    o.inmemory = bool::arbitrary(u)?;
    o.threads = 0;
    o.zoom = if bool::arbitrary(u)? { ZoomSpec::Manual(vec![8, 64]) } else { ZoomSpec::Auto { initial: 10, max: 4 } };
    Ok(Case { input: BwInput { chroms, unused: vec![] }, opts: o, k1_nudged: 0, delay: None })
}

fuzz_target!(|data: &[u8]| {
    let mut u = Unstructured::new(data);
    if let Ok(case) = build(&mut u) {
        let mut obs = Obs::default();
        if let Err(m) = C01::check(&case, &mut obs) {
            panic!("C01 oracle: {}\ncase: {:?}", m, case);
        }
    }
});
