#![no_main]
//! C02 (coverage-guided): bytes -> overlapping bigBed layout + options -> write -> read back -> model oracle.
use arbitrary::{Arbitrary, Unstructured};
use libfuzzer_sys::fuzz_target;
use vharness::model::*;
use vharness::props::c02::{Case, C02};
use vharness::runner::{Obs, Prop};

fn build(u: &mut Unstructured) -> arbitrary::Result<Case> {
    let nchrom = u.int_in_range(1..=3)? as usize;
    let mut chroms = vec![];
    for i in 0..nchrom {
        let n = u.int_in_range(1..=30)?;
        let mut entries = vec![];
        let mut start = u.int_in_range(0..=3)? as u32;
        let mut max_end = 0u32;
        for k in 0..n {
            start += *u.choose(&[0u32, 0, 1, 7, 300])?;
            let mut e = start + *u.choose(&[0u32, 1, 1, 2, 9, 500, 5000])?;
            if start == 0 && e == 0 {
                e = 1; // K2 (recorded finding) excluded by construction
            }
            let rest = match u.int_in_range(0..=3)? {
                0 => String::new(),
                1 => format!("n{}", k),
                2 => format!("n{}\t{}\t+", k, u.int_in_range(0..=1000)?),
                _ => "é\tx y".to_string(),
            };
            max_end = max_end.max(e);
            entries.push(BbEntry { s: start, e, rest });
        }
        chroms.push(BbChrom { name: format!("chr{}", i), size: max_end.max(start + 1) + *u.choose(&[0u32, 1, 1000])?, entries });
    }
    let mut o = Opts::default();
    o.compress = bool::arbitrary(u)?;
    o.items_per_slot = *u.choose(&[1u32, 2, 3, 8, 1024])?;
    o.block_size = *u.choose(&[2u32, 3, 5, 256])?;
    o.multipass = bool::arbitrary(u)?;
    o.inmemory = bool::arbitrary(u)?;
    o.threads = 0;
    o.zoom = if bool::arbitrary(u)? { ZoomSpec::Manual(vec![8, 64]) } else { ZoomSpec::Auto { initial: 10, max: 4 } };
    Ok(Case { input: BbInput { chroms, unused: vec![], autosql: None }, opts: o, k2_nudged: 0, delay: None })
}

fuzz_target!(|data: &[u8]| {
    let mut u = Unstructured::new(data);
    if let Ok(case) = build(&mut u) {
        let mut obs = Obs::default();
        if let Err(m) = C02::check(&case, &mut obs) {
            panic!("C02 oracle: {}\ncase: {:?}", m, case);
        }
    }
});
