table bed3
"Simple bed"
(
    string chrom;        "c"
    uint   chromStart;   "s"
    uint   chromEnd;     "e"
)
