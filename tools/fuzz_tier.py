#!/usr/bin/env python3
"""Thorough-tier supplement: one libFuzzer campaign (cargo +nightly fuzz) for a property, with the
semantic oracle inside the target. Adds a `fuzz` block to evidence/<ID>.json; on a crash prints a
VIOLATION line whose replay file is the crashing input (replayed with tools/fuzz_tier.py --replay)."""
import json, os, re, shutil, subprocess, sys, time

V = os.path.dirname(os.path.dirname(os.path.abspath(__file__)))
TARGETS = {"C19": ("autosql_parse", int(os.environ.get("VERIF_FUZZ_RUNS", 3_000_000))), "C10": ("bbi_read", int(os.environ.get("VERIF_FUZZ_RUNS", 60_000))), "C01": ("bw_roundtrip", int(os.environ.get("VERIF_FUZZ_RUNS", 15_000))), "C02": ("bb_roundtrip", int(os.environ.get("VERIF_FUZZ_RUNS", 15_000)))}


def env():
    e = dict(os.environ)
    e["CARGO_NET_OFFLINE"] = "true"
    e["RUSTFLAGS"] = "--cfg bigtools_verif --cfg rustix_use_libc"  # rustix 0.37 (pinned by /repo's lock file) only builds with its libc backend on the nightly toolchain
    e["CARGO_TARGET_DIR"] = os.path.join(V, "target", "fuzz")
    e["RUST_BACKTRACE"] = "0"
    return e


def main():
    pid = sys.argv[1]
    if pid not in TARGETS:
        return 0
    target, runs = TARGETS[pid]
    fz = os.path.join(V, "fuzz")
    if len(sys.argv) > 3 and sys.argv[2] == "--replay":
        r = subprocess.run(["cargo", "+nightly", "fuzz", "run", "--fuzz-dir", fz, target, sys.argv[3], "--", "-runs=1", "-timeout=10", "-rss_limit_mb=2048"], cwd=os.path.join(V, "harness"), env=env())
        if r.returncode != 0:
            print("VIOLATION property=%s replay=%s" % (pid, sys.argv[3]))
            return 1
        return 0
    seed = int(os.environ.get("VERIF_SEED", "1")) or 1
    corpus = os.path.join(V, "work", "fuzz_corpus_" + target)
    shutil.rmtree(corpus, ignore_errors=True)
    os.makedirs(corpus)
    seeds = os.path.join(fz, "seeds", target)
    art = os.path.join(V, "work", "fuzz_artifacts_" + target) + "/"
    shutil.rmtree(art, ignore_errors=True)
    os.makedirs(art)
    t0 = time.time()
    b = subprocess.run(["cargo", "+nightly", "fuzz", "build", "--fuzz-dir", fz, target], cwd=os.path.join(V, "harness"), env=env(), capture_output=True, text=True)
    if b.returncode != 0:
        print(b.stderr[-2000:])
        print("fuzz build failed")
        return 2
    args = ["cargo", "+nightly", "fuzz", "run", "--fuzz-dir", fz, target, corpus] + ([seeds] if os.path.isdir(seeds) else []) + [
        "--", "-runs=%d" % runs, "-seed=%d" % seed, "-timeout=10", "-rss_limit_mb=2048", "-len_control=0", "-max_len=4096",
        "-print_final_stats=1", "-artifact_prefix=" + art]
    r = subprocess.run(args, cwd=os.path.join(V, "harness"), env=env(), capture_output=True, text=True)
    out = r.stderr + r.stdout
    execs = re.search(r"stat::number_of_executed_units:\s*(\d+)", out)
    feats = re.findall(r"ft: (\d+)", out)
    stats = {
        "target": target,
        "engine": "libFuzzer via cargo-fuzz (oracle inside the target)",
        "executions": int(execs.group(1)) if execs else 0,
        "final_corpus": len(os.listdir(corpus)),
        "features": int(feats[-1]) if feats else 0,
        "wall_s": time.time() - t0,
        "crashed": r.returncode != 0,
    }
    evp = os.path.join(V, "evidence", pid + ".json")
    try:
        ev = json.load(open(evp))
        ev["coverage"]["fuzz"] = stats
        ev["coverage"]["evaluations"] += stats["executions"]
        json.dump(ev, open(evp, "w"), indent=1)
    except Exception as e:
        print("cannot extend evidence:", e)
    print("fuzz %s: %s" % (pid, json.dumps(stats)))
    if r.returncode != 0:
        arts = sorted(os.listdir(art))
        keep = os.path.join(V, "replays", pid)
        os.makedirs(keep, exist_ok=True)
        path = art
        if arts:
            path = os.path.join(keep, "fuzz_" + arts[0])
            shutil.copy(os.path.join(art, arts[0]), path)
        print(out[-1500:])
        print("VIOLATION property=%s replay=%s" % (pid, path))
        return 1
    return 0


if __name__ == "__main__":
    sys.exit(main())
