#!/bin/bash
# run every claimed check's quick tier on the current tree; print one line each
cd /verif
for id in $(python3 -c "import json;print(' '.join(c['property_id'] for c in json.load(open('MANIFEST.json'))['checks']))"); do
  s=$(date +%s); ./check $id ${1:-quick} > work/runall_$id.log 2>&1; rc=$?; e=$(date +%s)
  echo "$id rc=$rc $((e-s))s $(tail -1 work/runall_$id.log | cut -c1-150)"
done
