#!/bin/bash
# tools/revert_test.sh : for every repaired defect, take the repair out of /repo's working tree, run the
# owning checks (quick tier) and record whether they raise the alarm again; then restore the tree.
cd /verif
OUT=/verif/work/revert_results.txt
run() { # name "commits" "checks"
  name=$1; commits=$2; checks=$3
  ok=1
  for c in $commits; do
    git -C /repo show $c | git -C /repo apply -R 2>/dev/null || { ok=0; echo "$name: cannot reverse-apply $c" | tee -a $OUT; }
  done
  if [ $ok = 1 ]; then
    for k in $checks; do
      s=$(date +%s); ./check $k quick > work/revert_${name}_$k.log 2>&1; rc=$?; e=$(date +%s)
      first=$(grep -m1 "^failure" work/revert_${name}_$k.log | cut -c1-220)
      echo "$name reverted -> $k rc=$rc ($((e-s))s) $first" | tee -a $OUT
    done
  fi
  git -C /repo checkout -- .
  rm -rf /verif/replays/*/found_*
}
#run D1 5dd45d6 "C04 C05 C09 C02"
#run D2 8d63ebf "C06 C09"
#run D3 8e02660 "C07 C08 C09"
#run D4 0d290e3 "C08 C09"
run D5 7caac82 "C13 C02"
run D6 74514cc "C14"
run D6b 00b90f2 "C14"
run D12 "878f678 cf7a6ab" "C06 C09"
run D12b 878f678 "C06"
run D8a 756917b "C18"
run D8b 6eb34aa "C18"
run D9 93f1275 "C19"
run D7a 91ffd9d "C15"
run D7b aab635b "C15"
run D13 283c8df "C18 C17"
run D11 7882457 "C10"
run D14 0d5df9e "C10"
run D10 5390ba8 "C20"
run D15a "f64e496 6de2013" "C20"
run D15b 749b36b "C20"
run D15c 6522497 "C20"
git -C /repo status --short
echo DONE | tee -a $OUT
run D16 9329cef "C13"
run D17 2efc289 "C07 C13 C01"
run D18 5854f53 "C15"
run D19 f57f829 "C09 C07"
run D20 cd37895 "C07 C09"
run D21 ca8521f "C07 C01"
