#!/bin/bash
# Cross-check of the oracle decoder (harness/src/indep/decode.rs) against a second decoder written
# in Python (py/bbi_decode.py, struct + zlib): both print a canonical digest of N generated files
# plus the two UCSC-made fixtures; the digests must be identical.
set -u
cd "$(dirname "$0")/.."; VERIF_DIR_X="$(pwd)"
N=${1:-300}; SEED=${VERIF_SEED:-1}
export CARGO_NET_OFFLINE=true CARGO_TARGET_DIR=$VERIF_DIR_X/target RUSTFLAGS="--cfg bigtools_verif"
(cd harness && cargo build --offline --example decdump 2>/dev/null) || { echo "cannot build decdump"; exit 2; }
D=$VERIF_DIR_X/work/xcheck; rm -rf $D; mkdir -p $D
./target/debug/vcheck emit C09 $N $D $SEED | tail -1
cp /repo/bigtools/resources/test/valid.bigWig $D/ucsc1.bbi; cp /repo/pybigtools/tests/data/bigBedExample.bb $D/ucsc2.bbi
bad=0; n=0
for f in $D/*.bbi; do
  n=$((n+1))
  ./target/debug/examples/decdump $f > $D/rs.txt 2>$D/rs.err || { echo "rust decoder failed on $f: $(head -c 300 $D/rs.err)"; bad=$((bad+1)); continue; }
  python3 py/bbi_decode.py $f > $D/py.txt 2>$D/py.err || { echo "python decoder failed on $f: $(tail -1 $D/py.err)"; bad=$((bad+1)); continue; }
  cmp -s $D/rs.txt $D/py.txt || { echo "decoders disagree on $f"; diff $D/rs.txt $D/py.txt | head -5; bad=$((bad+1)); }
done
echo "decoder cross-check: $n files, $bad disagreements"
[ $bad -eq 0 ]
