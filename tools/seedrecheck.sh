#!/bin/bash
# usage: tools/seedrecheck.sh <VERIF_SEED> [name-glob]   (default: every seeded change)
# Re-runs, for each stored seeded change, its owning check (quick tier, given VERIF_SEED) against a
# scratch worktree of /repo that carries the change; run from a scratch clone of the committed /verif.
# Nothing in /repo or /verif is touched except the result log work/seedrecheck_<seed>.log.
SEED=${1:-1}; GLOB=${2:-*}
VS=${VERIF_SEED_CLONE:-/tmp/verif_seed}
[ -d $VS/.git ] || git clone -q /verif $VS
git -C $VS fetch -q origin && git -C $VS reset -q --hard FETCH_HEAD
LOG=/verif/work/seedrecheck_$SEED.log; mkdir -p /verif/work; : > $LOG
for d in /verif/seeded/$GLOB/; do
  n=$(basename $d); [ -f $d/patch.diff ] || continue
  pid=${n:0:3}
  WT=/tmp/wr_$n
  git -C /repo worktree add --detach -q $WT HEAD || continue
  if git -C $WT apply $d/patch.diff; then
    (cd $VS && VERIF_SEED=$SEED VERIF_REPO=$WT ./check $pid quick > /tmp/wr_$n.log 2>&1); rc=$?
    echo "$n seed=$SEED $pid:rc=$rc $(grep -m1 '^failure' /tmp/wr_$n.log | cut -c1-160)" | tee -a $LOG
  else
    echo "$n patch does not apply" | tee -a $LOG
  fi
  rm -f /tmp/wr_$n.log
  git -C /repo worktree remove --force $WT
done
rm -rf $VS/replays/*/found_*
git -C /repo worktree prune
