#!/usr/bin/env python3
"""Print the DESIGN.md 9.2 table from seeded/*/meta.json."""
import json, glob, os
def cut(s, n):
    s = " ".join(str(s).replace("|", "/").split())
    return s if len(s) <= n else s[: n - 1] + "…"
print("| seeded change | needs | checks run (quick, seed 1) |")
print("|---|---|---|")
for p in sorted(glob.glob(os.path.join(os.path.dirname(__file__), "..", "seeded", "*", "meta.json"))):
    m = json.load(open(p))
    name = os.path.basename(os.path.dirname(p))
    print(f"| `{name}` — {cut(m.get('summary',''), 230)} | {cut(m.get('needs',''), 230)} | {cut(m.get('checks_run',''), 200)} |")
