#!/bin/bash
# tools/seedtest.sh <worktree> <PROP> <name> [checks...]
# 1. re-confirms a sub-agent's seeded change in its scratch worktree (tests pass with it, demo fails with it and passes without)
# 2. stores it under /verif/seeded/<name>/
# 3. applies it to /repo, runs the given checks (default: the property's own quick check), undoes it
set -u
WT="$1"; PROP="$2"; NAME="$3"; shift 3
CHECKS="${*:-$PROP}"
OUT=/verif/seeded/$NAME
mkdir -p "$OUT"
cp "$WT"/SEEDED/* "$OUT"/ 2>/dev/null
cd "$WT" || exit 2
DEMO=bigtools/tests/seeded_demo.rs
echo "== demo WITH change"
if [ -f $DEMO ]; then
  CARGO_NET_OFFLINE=true cargo test -p bigtools --test seeded_demo --offline > "$OUT/demo_with.log" 2>&1; W=$?
  git apply -R SEEDED/patch.diff || { echo "cannot reverse patch"; exit 2; }
  echo "== demo WITHOUT change"
  CARGO_NET_OFFLINE=true cargo test -p bigtools --test seeded_demo --offline > "$OUT/demo_without.log" 2>&1; WO=$?
  git apply SEEDED/patch.diff
  mv $DEMO /tmp/seeded_demo_$NAME.rs
  echo "== existing suite WITH change"
  CARGO_NET_OFFLINE=true cargo test --workspace --no-fail-fast --offline > "$OUT/suite_with.log" 2>&1; S=$?
  mv /tmp/seeded_demo_$NAME.rs $DEMO
elif [ -f SEEDED/demo.py ]; then
  # Python demonstration against the extension module built in the worktree
  pybuild() { PYO3_PYTHON=$(command -v python3-vt) CARGO_NET_OFFLINE=true cargo build --offline -p pybigtools --no-default-features > "$OUT/pybuild.log" 2>&1 && mkdir -p /tmp/pyext_$NAME && cp target/debug/libpybigtools.so /tmp/pyext_$NAME/pybigtools.so; }
  pybuild; PYTHONPATH=/tmp/pyext_$NAME python3-vt SEEDED/demo.py /tmp/pyext_$NAME/pybigtools.so > "$OUT/demo_with.log" 2>&1; W=$?
  git apply -R SEEDED/patch.diff || { echo "cannot reverse patch"; exit 2; }
  echo "== demo WITHOUT change"
  pybuild; PYTHONPATH=/tmp/pyext_$NAME python3-vt SEEDED/demo.py /tmp/pyext_$NAME/pybigtools.so > "$OUT/demo_without.log" 2>&1; WO=$?
  git apply SEEDED/patch.diff
  rm -rf /tmp/pyext_$NAME
  echo "== existing suite WITH change"
  CARGO_NET_OFFLINE=true cargo test --workspace --no-fail-fast --offline > "$OUT/suite_with.log" 2>&1; S=$?
else
  echo "no demo test file at $DEMO"; W=-1; WO=-1; S=-1
fi
echo "demo with change rc=$W (want != 0); without rc=$WO (want 0); suite with change rc=$S (want 0)"
# the checks run from a scratch clone of the committed /verif (own build output, own work/evidence/
# replays directories) against the scratch worktree itself (it holds the change): neither /repo nor
# /verif's evidence is touched, and other runs in /verif are not disturbed
VS=${VERIF_SEED_CLONE:-/tmp/verif_seed}
[ -d $VS/.git ] || git clone -q /verif $VS
git -C $VS fetch -q origin && git -C $VS reset -q --hard FETCH_HEAD
cd $VS
mv "$WT/$DEMO" /tmp/seeded_demo_hold_$NAME.rs 2>/dev/null
RES=""
for c in $CHECKS; do
  VERIF_REPO="$WT" ./check $c quick > "$OUT/check_$c.log" 2>&1; rc=$?
  RES="$RES $c:rc=$rc"
  grep -m3 "^failure" "$OUT/check_$c.log"
done
mv /tmp/seeded_demo_hold_$NAME.rs "$WT/$DEMO" 2>/dev/null
rm -rf $VS/replays/*/found_*
cd /verif
echo "RESULT $NAME demo_with=$W demo_without=$WO suite=$S checks:$RES"
python3 - "$OUT" "$W" "$WO" "$S" "$RES" <<'PY'
import json,sys
out,w,wo,s,res=sys.argv[1:6]
p=out+'/meta.json'
try: m=json.load(open(p))
except Exception: m={}
m['confirmed_by_me']={'demo_fails_with_change': int(w)!=0, 'demo_passes_without': int(wo)==0, 'existing_suite_passes_with_change': int(s)==0}
m['checks_run']=res.strip()
json.dump(m,open(p,'w'),indent=1)
PY
