#!/usr/bin/env python3
"""Regenerates /verif/MANIFEST.json from the table below (kept valid at all times)."""
import json, os, subprocess
V = os.path.dirname(os.path.dirname(os.path.abspath(__file__)))
props = [json.loads(l) for l in open(os.path.join(V, 'properties.jsonl'))]
# id -> (level category, level text, note, technique, design ref)
IMPL = {
 'C01': ('exploration', 'Generated (layout, options, call shape) triples are written with the real BigWigWrite into memory and read back through BigWigRead; the oracle is the generating model (bit-exact triples, chromosome table order and sizes, per-base array). Thousands of cases per run over every option value; no proof of absence.', 'Trusts the harness model and the in-memory sink; chromosome names/positions restricted as listed in evidence.assumptions; known finding K1 excluded by construction and probed.', 'property-based round trip against a reference model (proptest, sharded workers, shrinking to a replay file)', 'DESIGN.md §3 C01'),
 'C02': ('exploration', 'Generated (entry layout incl. overlapping/nested/identical/zero-length entries, autoSql, options, call shape) written with BigBedWrite and read back; oracle is the generating model (entries in input order, item count, autoSql verbatim, chromosome table).', 'Trusts the harness model and in-memory sink; known finding K2 excluded by construction and probed.', 'property-based round trip against a reference model (proptest, sharded workers, shrinking to a replay file)', 'DESIGN.md §3 C02'),
}
try:
    exec(open(os.path.join(V, 'tools', 'manifest_table.py')).read())
    IMPL.update(EXTRA)
except FileNotFoundError:
    pass
hooks_commits = []
hc = os.path.join(V, 'tools', 'hook_commits.txt')
if os.path.exists(hc):
    hooks_commits = [l.strip() for l in open(hc) if l.strip()]
checks = []
na = []
for p in props:
    i = p['id']
    if i in IMPL:
        cat, text, note, tech, ref = IMPL[i]
        checks.append({
            'property_id': i,
            'quick_cmd': f'./check {i} quick',
            'thorough_cmd': f'./check {i} thorough',
            'evidence_file': f'/verif/evidence/{i}.json',
            'replay_cmd_template': f'./check {i} --replay {{path}}',
            'engine': 'py-hypothesis' if i == 'C20' else 'vharness',
            'level_claimed': {'category': cat, 'text': text, 'design_ref': ref},
            'level_note': note,
            'technique': tech,
        })
    else:
        na.append({'property_id': i, 'reason': 'check not built yet in this round (property-based testing applies; see DESIGN.md §3) — not claimed until the check exists'})
m = {
 'version': 1,
 'setup_cmd': './setup.sh',
 'hooks': {
   'guard': 'bigtools_verif',
   'enable': 'RUSTFLAGS="--cfg bigtools_verif" (set by ./check and ./setup.sh for every cargo build of /repo sources)',
   'baseline_off_cmd': 'cd /repo && cargo test --workspace --no-fail-fast --offline',
   'source_commits': hooks_commits,
   'add_only': True,
 },
 'engines': [
   {'name': 'vharness', 'path': '/verif/harness', 'serves_properties': [c['property_id'] for c in checks if c['engine']=='vharness'], 'kind_free_text': 'Rust: proptest strategies + reference models + independent BBI decoder/encoder; sharded worker processes with watchdog, shrinking, replay files, evidence JSON'},
   {'name': 'py-hypothesis', 'path': '/verif/py', 'serves_properties': [c['property_id'] for c in checks if c['engine']=='py-hypothesis'], 'kind_free_text': 'Hypothesis driving the real Python binding built from the working tree'},
 ],
 'checks': checks,
 'not_applicable': na,
 'notes': 'All checks: exit 0 = held on everything explored, 1 = VIOLATION line + replay file, 2 = inconclusive/infrastructure. known_findings.json lists open findings (printed as KNOWN-FINDING) and fixed ones.',
}
json.dump(m, open(os.path.join(V, 'MANIFEST.json'), 'w'), indent=1)
print('wrote MANIFEST.json with', len(checks), 'checks;', len(na), 'not claimed')
