#!/usr/bin/env python3
"""C20 — Python-binding array routines compute the documented per-base and binned values.

Drives the real `values()` call of the extension module built from /repo's working tree with
Hypothesis-generated layouts and queries; the oracle is a numpy-free reference in plain Python.
"""
import argparse
import hashlib
import json
import math
import os
import struct
import subprocess
import sys
import time

import hypothesis
from hypothesis import given, settings, strategies as st, HealthCheck, seed as hseed

import pybigtools

VERIF = os.environ.get("VERIF_DIR", "/verif")
TMP = os.path.join(VERIF, "work", "tmp")
os.makedirs(TMP, exist_ok=True)

STATS = {"cases": 0, "queries": 0, "nontrivial": set(), "labels": {}, "samples": []}
LAST_FAIL = {}


def label(l):
    STATS["labels"][l] = STATS["labels"].get(l, 0) + 1


def f32(x):
    return struct.unpack("f", struct.pack("f", x))[0]


# ---------------------------------------------------------------------------------------------
# strategies

@st.composite
def layout(draw):
    kind = draw(st.sampled_from(["bigwig", "bigbed"]))
    size = draw(st.one_of(st.integers(1, 12), st.integers(1, 120)))
    items = []
    if kind == "bigwig":
        pos = 0
        n = draw(st.integers(0, 12))
        const = draw(st.booleans()) and draw(st.booleans())
        cval = f32(draw(st.floats(-100, 100, width=32)))
        for _ in range(n):
            gap = draw(st.sampled_from([0, 0, 1, 2, 5, 17]))
            ln = draw(st.sampled_from([1, 1, 2, 3, 7, 30]))
            s = pos + gap
            e = s + ln
            if e > size:
                break
            v = cval if const else draw(st.one_of(
                st.integers(-5, 5).map(float),
                st.floats(-1e6, 1e6, width=32, allow_nan=False, allow_infinity=False),
                st.floats(width=32, allow_nan=False, allow_infinity=False),
            ))
            items.append((s, e, f32(v)))
            pos = e
        if not items:
            items.append((0, min(1, size), 1.0))
    else:
        start = 0
        n = draw(st.integers(1, 12))
        for _ in range(n):
            start += draw(st.sampled_from([0, 0, 1, 2, 5, 17]))
            if start >= size:
                break
            ln = draw(st.sampled_from([1, 2, 3, 7, 30, 100]))
            items.append((start, min(start + ln, size), "n%d" % len(items)))
        if not items:
            items.append((0, min(1, size), "n0"))
    return {"kind": kind, "size": size, "items": items}


@st.composite
def query(draw, size):
    s = draw(st.one_of(st.integers(-15, size + 5), st.integers(0, max(0, size - 1)), st.just(0)))
    e = draw(st.one_of(st.integers(s + 1, size + 20), st.integers(s + 1, max(s + 1, size)), st.just(max(s + 1, size))))
    width = e - s
    bins = draw(st.one_of(st.none(), st.integers(1, width), st.sampled_from([d for d in range(1, width + 1) if width % d == 0])))
    summary = draw(st.sampled_from(["mean", "min", "max"]))
    exact = draw(st.sampled_from([True, True, True, False]))
    missing = draw(st.one_of(st.just(0.0), st.just(-1.0), st.floats(-1e9, 1e9, allow_nan=False)))
    oob = draw(st.one_of(st.just(float("nan")), st.just(-7.0), st.floats(-1e9, 1e9, allow_nan=False), st.just(missing)))
    return {"s": s, "e": e, "bins": bins, "summary": summary, "exact": exact, "missing": missing, "oob": oob}


@st.composite
def case(draw):
    lay = draw(layout())
    qs = draw(st.lists(query(lay["size"]), min_size=1, max_size=8))
    return {"layout": lay, "queries": qs}


# ---------------------------------------------------------------------------------------------
# reference model (plain Python)

def per_base(lay):
    """value per base of the chromosome: None where no data"""
    n = lay["size"]
    out = [None] * n
    if lay["kind"] == "bigwig":
        for s, e, v in lay["items"]:
            for p in range(s, min(e, n)):
                out[p] = float(v)
    else:
        for s, e, _ in lay["items"]:
            for p in range(s, min(e, n)):
                out[p] = (out[p] or 0.0) + 1.0
    return out


def same(a, b, tol=1e-9):
    if a is None or b is None:
        return False
    if math.isnan(a) or math.isnan(b):
        return math.isnan(a) and math.isnan(b)
    if a == b:
        return True
    return abs(a - b) <= tol * max(abs(a), abs(b), 1e-300)


def stat(vals, summary):
    if summary == "mean":
        return math.fsum(vals) / len(vals)
    return min(vals) if summary == "min" else max(vals)


def judge(lay, q, got):
    """returns None or an error message"""
    n = lay["size"]
    base = per_base(lay)
    s, e, bins = q["s"], q["e"], q["bins"]
    missing, oob = q["missing"], q["oob"]
    width = e - s
    desc = "values(chr1, %d, %d, bins=%r, summary=%r, exact=%r, missing=%r, oob=%r)" % (s, e, bins, q["summary"], q["exact"], missing, oob)
    if bins is None:
        if len(got) != width:
            return "%s returned %d entries for a range of %d bases" % (desc, len(got), width)
        for i in range(width):
            p = s + i
            if p < 0 or p >= n:
                want = oob
            elif base[p] is None:
                want = missing
            else:
                want = base[p]
            if not same(got[i], want):
                return "%s[%d] (base %d) = %r, documented value %r" % (desc, i, p, got[i], want)
        return None
    if len(got) != bins:
        return "%s returned %d entries for %d bins" % (desc, len(got), bins)
    inrange = [base[p] for p in range(max(s, 0), min(e, n)) if base[p] is not None]
    lo, hi = (min(inrange), max(inrange)) if inrange else (None, None)
    integral = width % bins == 0
    w = width / bins
    for i in range(bins):
        g = got[i]
        b0 = s + i * w
        b1 = s + (i + 1) * w
        wholly_outside = b1 <= 0 or b0 >= n
        touches_outside = b0 < 0 or b1 > n
        if integral and q["exact"]:
            b0, b1 = int(b0), int(b1)
            inside = [base[p] for p in range(max(b0, 0), min(b1, n))]
            covered = [v for v in inside if v is not None]
            if wholly_outside:
                if not same(g, oob):
                    return "%s bin %d [%d,%d) lies outside the chromosome: got %r, expected oob %r" % (desc, i, b0, b1, g, oob)
                continue
            want = stat(covered, q["summary"]) if covered else missing
            ok = same(g, want) or (touches_outside and same(g, oob))
            if not ok:
                return "%s bin %d [%d,%d): got %r, documented %s over covered bases = %r" % (desc, i, b0, b1, g, q["summary"], want)
        else:
            # weaker clause: never NaN for finite data / finite missing; missing, oob, or within the data's range
            if math.isnan(g):
                if not ((touches_outside or wholly_outside) and math.isnan(oob)):
                    return "%s bin %d [%g,%g): NaN although the data and `missing` are finite" % (desc, i, b0, b1)
                continue
            if same(g, missing) or ((touches_outside or wholly_outside) and same(g, oob)):
                continue
            if not inrange:
                if wholly_outside or touches_outside:
                    continue
                return "%s bin %d: %r but the range holds no data (expected missing %r)" % (desc, i, g, missing)
            slack = 1e-6 * max(abs(lo), abs(hi), 1.0)
            if g < lo - slack or g > hi + slack:
                return "%s bin %d [%g,%g): %r lies outside the data's range [%r, %r]" % (desc, i, b0, b1, g, lo, hi)
    # metamorphic: constant data over the whole in-bounds range => every in-bounds bin equals it
    if inrange and lo == hi and all(base[p] is not None for p in range(max(s, 0), min(e, n))) and q["exact"]:
        for i in range(bins):
            b0 = s + i * w
            b1 = s + (i + 1) * w
            if b0 >= 0 and b1 <= n and not same(got[i], lo, 1e-6):
                return "%s: data is constant %r over the range, bin %d = %r" % (desc, lo, i, got[i])
    return None


# ---------------------------------------------------------------------------------------------

def write_file(lay, tag):
    ext = "bw" if lay["kind"] == "bigwig" else "bb"
    path = os.path.join(TMP, "c20_%s_%d.%s" % (tag, os.getpid(), ext))
    w = pybigtools.open(path, "w")
    if lay["kind"] == "bigwig":
        w.write({"chr1": lay["size"]}, iter([("chr1", s, e, v) for s, e, v in lay["items"]]))
    else:
        w.write({"chr1": lay["size"]}, iter([("chr1", s, e, r) for s, e, r in lay["items"]]))
    return path


def run_case(c, collect=True):
    lay = c["layout"]
    path = write_file(lay, "x")
    try:
        r = pybigtools.open(path)
        for q in c["queries"]:
            try:
                got = r.values("chr1", q["s"], q["e"], bins=q["bins"], summary=q["summary"], exact=q["exact"], missing=q["missing"], oob=q["oob"])
                got = [float(x) for x in got]
                msg = judge(lay, q, got)
                # metamorphic: which bins count as out of bounds must not depend on the fill values. When
                # oob equals missing (a single call cannot tell the two apart) ask again with another oob.
                if msg is None and q["bins"] is not None and same(q["oob"], q["missing"]) and not math.isnan(q["oob"]) \
                        and (q["s"] < 0 or q["e"] > lay["size"]):
                    # two different probe values: a statistic that happens to equal one of them cannot equal both
                    oob2, oob3 = q["oob"] + 1234.5, q["oob"] - 98765.25
                    got2 = [float(x) for x in r.values("chr1", q["s"], q["e"], bins=q["bins"], summary=q["summary"], exact=q["exact"], missing=q["missing"], oob=oob2)]
                    got3 = [float(x) for x in r.values("chr1", q["s"], q["e"], bins=q["bins"], summary=q["summary"], exact=q["exact"], missing=q["missing"], oob=oob3)]
                    label("oob-equals-missing-rechecked")
                    for i, (a, b) in enumerate(zip(got, got2)):
                        if same(b, oob2) and same(got3[i], oob3):
                            if not same(a, q["oob"]):
                                msg = "values(chr1, %d, %d, bins=%r, summary=%r, exact=%r, missing=%r, oob=%r): bin %d = %r, but with oob=%r the same bin is out of bounds (%r): the fill values change which bins are out of bounds" % (
                                    q["s"], q["e"], q["bins"], q["summary"], q["exact"], q["missing"], q["oob"], i, a, oob2, b)
                                break
                        elif not same(b, oob2) and not same(a, b):
                            msg = "values(chr1, %d, %d, bins=%r, summary=%r, exact=%r, missing=%r): bin %d = %r with oob=%r but %r with oob=%r" % (
                                q["s"], q["e"], q["bins"], q["summary"], q["exact"], q["missing"], i, a, q["oob"], b, oob2)
                            break
            except BaseException as ex:  # pyo3 PanicException derives from BaseException
                if type(ex).__name__ != "PanicException" and not isinstance(ex, Exception):
                    raise
                msg = "values(chr1, %d, %d, bins=%r, summary=%r, exact=%r, missing=%r, oob=%r) raised %s: %s" % (
                    q["s"], q["e"], q["bins"], q["summary"], q["exact"], q["missing"], q["oob"], type(ex).__name__, ex)
            if collect:
                STATS["queries"] += 1
                width = q["e"] - q["s"]
                nonint = q["bins"] is not None and width % q["bins"] != 0
                leaves = q["s"] < 0 or q["e"] > lay["size"]
                if nonint:
                    label("non-integral-bin-width")
                if leaves:
                    label("range-leaves-chromosome")
                if q["bins"] is None:
                    label("per-base")
                elif not nonint:
                    label("integral-bins")
                label(lay["kind"])
                label("summary=" + q["summary"])
                label("exact" if q["exact"] else "inexact")
                if nonint or leaves:
                    STATS["nontrivial"].add(hashlib.sha1(json.dumps([lay, q], sort_keys=True, default=str).encode()).hexdigest())
            if msg:
                return msg, q
        r.close()
    finally:
        try:
            os.remove(path)
        except OSError:
            pass
    return None, None


def jsonable(c):
    return json.loads(json.dumps(c, default=lambda x: x if not (isinstance(x, float) and math.isnan(x)) else "nan").replace("NaN", '"nan"'))


def denan(c):
    for q in c["queries"]:
        for k in ("missing", "oob"):
            if q[k] == "nan":
                q[k] = float("nan")
    c["layout"]["items"] = [tuple(i) for i in c["layout"]["items"]]
    return c


def worker(tier, seed, shard, nshards, out):
    n = {"quick": 24000, "thorough": 250000}[tier] // nshards

    @hseed(seed * 1000 + shard)
    @settings(database=None, deadline=None, max_examples=n, suppress_health_check=list(HealthCheck), derandomize=False, print_blob=False)
    @given(case())
    def prop(c):
        STATS["cases"] += 1
        msg, q = run_case(c)
        if len(STATS["samples"]) < 3 and STATS["cases"] % 97 == 1:
            STATS["samples"].append(jsonable(c))
        if msg:
            LAST_FAIL["case"] = {"layout": c["layout"], "queries": [q]}
            LAST_FAIL["msg"] = msg
            raise AssertionError(msg)

    res = {"violation": None}
    try:
        prop()
    except AssertionError:
        res["violation"] = {"case": jsonable(LAST_FAIL["case"]), "msg": LAST_FAIL["msg"]}
    except Exception as e:  # harness or binding trouble other than an oracle failure
        if LAST_FAIL:
            res["violation"] = {"case": jsonable(LAST_FAIL["case"]), "msg": LAST_FAIL["msg"]}
        else:
            res["error"] = "%s: %s" % (type(e).__name__, e)
    res.update({"cases": STATS["cases"], "queries": STATS["queries"], "nontrivial": sorted(STATS["nontrivial"]), "labels": STATS["labels"], "samples": STATS["samples"]})
    json.dump(res, open(out, "w"))


def main():
    ap = argparse.ArgumentParser()
    ap.add_argument("--tier", default="quick")
    ap.add_argument("--seed", type=int, default=1)
    ap.add_argument("--replay")
    ap.add_argument("--worker", type=int)
    ap.add_argument("--nshards", type=int, default=1)
    ap.add_argument("--out")
    a = ap.parse_args()
    if a.replay:
        j = json.load(open(a.replay))
        c = denan(j.get("case", j))
        msg, _ = run_case(c, collect=False)
        if msg:
            print("replay %s: %s" % (a.replay, msg))
            print("VIOLATION property=C20 replay=%s" % a.replay)
            sys.exit(1)
        print("replay %s: property held on this case" % a.replay)
        sys.exit(0)
    if a.worker is not None:
        worker(a.tier, a.seed, a.worker, a.nshards, a.out)
        return
    # parent: regression replays, then shards
    t0 = time.time()
    violations = []
    regdir = os.path.join(VERIF, "replays", "C20")
    regs = sorted(f for f in (os.listdir(regdir) if os.path.isdir(regdir) else []) if f.startswith("reg_"))
    for f in regs:
        j = json.load(open(os.path.join(regdir, f)))
        msg, _ = run_case(denan(j["case"]), collect=False)
        if msg:
            print("regression replay fails: %s: %s" % (f, msg))
            print("VIOLATION property=C20 replay=%s" % os.path.join(regdir, f))
            violations.append(f)
    nshards = min(16, os.cpu_count() or 4)
    procs = []
    for i in range(nshards):
        out = os.path.join(TMP, "c20_shard_%d.json" % i)
        if os.path.exists(out):
            os.remove(out)
        procs.append((subprocess.Popen([sys.executable, __file__, "--tier", a.tier, "--seed", str(a.seed), "--worker", str(i), "--nshards", str(nshards), "--out", out]), out))
    cases = queries = 0
    nontrivial = set()
    labels = {}
    samples = []
    errors = []
    for p, out in procs:
        p.wait()
        if not os.path.exists(out):
            errors.append("shard produced no result (exit %s)" % p.returncode)
            continue
        r = json.load(open(out))
        cases += r["cases"]
        queries += r["queries"]
        nontrivial.update(r["nontrivial"])
        for k, v in r["labels"].items():
            labels[k] = labels.get(k, 0) + v
        samples.extend(r["samples"][:1])
        if r.get("error"):
            errors.append(r["error"])
        if r.get("violation"):
            v = r["violation"]
            h = hashlib.sha1(json.dumps(v["case"], sort_keys=True).encode()).hexdigest()[:16]
            os.makedirs(regdir, exist_ok=True)
            path = os.path.join(regdir, "found_%s.json" % h)
            json.dump({"property": "C20", "seed": a.seed, "msg": v["msg"], "case": v["case"]}, open(path, "w"), indent=1)
            print("failure: %s" % v["msg"])
            print("VIOLATION property=C20 replay=%s" % path)
            violations.append(path)
            samples.append(v["case"])
    ev = {
        "property_id": "C20",
        "tier": a.tier,
        "seed": a.seed,
        "level": "exploration",
        "coverage": {
            "evaluations": queries + len(regs),
            "distinct_nontrivial": len(nontrivial),
            "rule": "Hypothesis-generated small chromosome (1..120 bases) with a bigWig layout (disjoint finite values) or bigBed layout (overlapping entries) written with the module's own writer, and 1..8 queries "
                    "(start, end) incl. start < 0 and end > size, bins in 1..(end-start) or none, summary in {mean,min,max}, exact, finite missing, finite or NaN oob, through the real Python values() call; "
                    "oracle (plain Python): per-base = stored value / overlap count, missing where none, oob outside; integral bin width + exact: mean/min/max over the covered bases of the bin, missing when none, oob when wholly outside "
                    "(partly outside: oob or the statistic of the inside part); other widths / inexact: never NaN for finite data and missing, every entry is missing, oob or within the data's range, constant data gives the constant. "
                    "non-trivial = non-integral bin width OR a range leaving the chromosome; distinct = distinct (layout, query)",
            "samples": samples[:6] if samples else [{"note": "no sample collected"}],
            "generated_cases": cases,
            "regression_replays": len(regs),
            "labels": labels,
            "errors": errors,
            "technique": "Hypothesis (seeded, database off) against a plain-Python reference model, real extension module built from the working tree",
        },
        "assumptions": ["values() is exercised through the public Python API; exact=False is only checked for NaN-freedom and range"],
        "wall_s": time.time() - t0,
        "violations": len(violations),
    }
    os.makedirs(os.path.join(VERIF, "evidence"), exist_ok=True)
    json.dump(ev, open(os.path.join(VERIF, "evidence", "C20.json"), "w"), indent=1)
    print("C20 %s: evaluations=%d distinct_nontrivial=%d violations=%d errors=%d wall=%.1fs" % (a.tier, queries, len(nontrivial), len(violations), len(errors), time.time() - t0))
    for e in errors:
        print("inconclusive:", e)
    if violations:
        sys.exit(1)
    if errors:
        sys.exit(2)
    sys.exit(0)


if __name__ == "__main__":
    main()
