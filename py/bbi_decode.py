#!/usr/bin/env python3
"""Second, independent BBI decoder (struct + zlib only). Prints a canonical digest of a file;
`harness/examples/decdump.rs` prints the same digest from the Rust decoder. Used to cross-check the
oracle decoder of C09/C10 (tools/decoder_crosscheck.sh)."""
import struct, sys, zlib


def digest(data):
    out = []
    magic_le = struct.unpack("<I", data[:4])[0]
    if magic_le in (0x888FFC26, 0x8789F2EB):
        E = "<"
    else:
        E = ">"
    magic = struct.unpack(E + "I", data[:4])[0]
    assert magic in (0x888FFC26, 0x8789F2EB), "bad magic"
    bigwig = magic == 0x888FFC26
    ver, nz, cto, fdo, fio, fc, dfc, aso, tso, ubs, ext = struct.unpack(E + "HHQQQHHQQIQ", data[4:64])
    out.append("H %s %s v%d zl%d fc%d dfc%d ubs%d" % ("bigwig" if bigwig else "bigbed", "be" if E == ">" else "le", ver, nz, fc, dfc, ubs))
    # chromosome tree
    cm, bs, ks, vs, ic, _ = struct.unpack(E + "IIIIQQ", data[cto:cto + 32])
    assert cm == 0x78CA8C91 and vs == 8
    chroms = []

    def node(at):
        leaf, _, cnt = struct.unpack(E + "BBH", data[at:at + 4])
        p = at + 4
        for _ in range(cnt):
            key = data[p:p + ks]
            if leaf:
                cid, size = struct.unpack(E + "II", data[p + ks:p + ks + 8])
                chroms.append((key.rstrip(b"\0").decode("utf8"), cid, size))
            else:
                child = struct.unpack(E + "Q", data[p + ks:p + ks + 8])[0]
                node(child)
            p += ks + 8
    node(cto + 32)
    for name, cid, size in sorted(chroms, key=lambda c: c[1]):
        out.append("C %s %d %d" % (name, cid, size))

    def leaves(ioff):
        m, bsz, icnt, sc, sb, ec, eb, efo, ips, _ = struct.unpack(E + "IIQIIIIQII", data[ioff:ioff + 48])
        assert m == 0x2468ACE0
        res = []

        def walk(at):
            leaf, _, cnt = struct.unpack(E + "BBH", data[at:at + 4])
            p = at + 4
            for _ in range(cnt):
                if leaf:
                    res.append(struct.unpack(E + "IIIIQQ", data[p:p + 32]))
                    p += 32
                else:
                    a, b, c, d, off = struct.unpack(E + "IIIIQ", data[p:p + 24])
                    walk(off)
                    p += 24
        walk(ioff + 48)
        return res

    def block(off, size):
        raw = data[off:off + size]
        return zlib.decompress(raw) if ubs > 0 else raw

    def fbits(b):
        return struct.unpack(E + "I", b)[0]

    for (sc, sb, ec, eb, off, size) in leaves(fio):
        out.append("L %d %d %d %d" % (sc, sb, ec, eb))
        b = block(off, size)
        if bigwig:
            cid, cs, ce, step, span, kind, _, n = struct.unpack(E + "IIIIIBBH", b[:24])
            for i in range(n):
                if kind == 1:
                    s, e = struct.unpack(E + "II", b[24 + 12 * i:32 + 12 * i])
                    v = fbits(b[32 + 12 * i:36 + 12 * i])
                elif kind == 2:
                    s = struct.unpack(E + "I", b[24 + 8 * i:28 + 8 * i])[0]
                    e = s + span
                    v = fbits(b[28 + 8 * i:32 + 8 * i])
                else:
                    s = cs + step * i
                    e = s + span
                    v = fbits(b[24 + 4 * i:28 + 4 * i])
                out.append("B %d %d %d %08x" % (cid, s, e, v))
        else:
            p = 0
            while p < len(b):
                cid, s, e = struct.unpack(E + "III", b[p:p + 12])
                p += 12
                q = b.index(b"\0", p)
                out.append("E %d %d %d %s" % (cid, s, e, b[p:q].hex()))
                p = q + 1
    for i in range(nz):
        red, _, doff, ioff = struct.unpack(E + "IIQQ", data[64 + 24 * i:88 + 24 * i])
        lv = leaves(ioff)
        out.append("Z %d %d" % (red, len(lv)))
        for (sc, sb, ec, eb, off, size) in lv:
            b = block(off, size)
            for k in range(len(b) // 32):
                cid, s, e, valid = struct.unpack(E + "IIII", b[32 * k:32 * k + 16])
                bits = [fbits(b[32 * k + 16 + 4 * j:32 * k + 20 + 4 * j]) for j in range(4)]
                out.append("R %d %d %d %d %08x %08x %08x %08x" % (cid, s, e, valid, *bits))
    if tso:
        n, mn, mx, sm, ss = struct.unpack(E + "Qdddd", data[tso:tso + 40])
        bits = lambda x: "%016x" % struct.unpack(">Q", struct.pack(">d", x))[0]
        out.append("S %d %s %s %s %s" % (n, bits(mn), bits(mx), bits(sm), bits(ss)))
    return "\n".join(out) + "\n"


if __name__ == "__main__":
    for f in sys.argv[1:]:
        sys.stdout.write(digest(open(f, "rb").read()))
