#!/bin/bash
# builds the Python extension from /repo's working tree (offline) and exposes it as work/py/pybigtools.so
set -eu
cd "$(dirname "$0")/.."
export VERIF_DIR="$(pwd)"
export CARGO_NET_OFFLINE=true
export RUSTFLAGS="--cfg bigtools_verif"
export PYO3_PYTHON="$(command -v python3-vt)"
mkdir -p work/py
REPO="${VERIF_REPO:-/repo}"
TD="$VERIF_DIR/target/repo"; [ "$REPO" = "/repo" ] || TD="$VERIF_DIR/target_alt/repo"
cargo build --offline --manifest-path "$REPO/Cargo.toml" -p pybigtools --no-default-features --target-dir "$TD" 2> work/build_py.log || { tail -30 work/build_py.log; echo "build failed (pybigtools)"; exit 2; }
cp "$TD/debug/libpybigtools.so" work/py/pybigtools.so
