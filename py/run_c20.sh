#!/bin/bash
# ./py/run_c20.sh quick|thorough | --replay <file>
set -u
cd "$(dirname "$0")/.."
export VERIF_DIR="$(pwd)"
mkdir -p work/py work/tmp evidence
py/build_py.sh || exit 2
export PYTHONPATH="$VERIF_DIR/work/py:$VERIF_DIR/py"
export RUST_BACKTRACE=0
MODE="${1:-quick}"
if [ "$MODE" = "--replay" ]; then
  exec python3-vt py/c20_values.py --replay "${2:?replay file}"
fi
exec python3-vt py/c20_values.py --tier "$MODE" --seed "${VERIF_SEED:-1}"
